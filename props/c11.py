"""C11 - Non-local control flow keeps shadow stack and real stack in step.

Theorems: coq/theories/Properties_C11.v over coq/theories/C11/Model.v (shadow-stack bookkeeping of
libmcount around longjmp / exceptions / tail calls + the replay-side setjmp/longjmp depth fix-up).

Tie, on every run:
 (a) in-process: harness/c/c11_harness.c #includes libmcount/plthook.c of the current tree, links the
     other libmcount objects of the scratch build and plays "CPU + program" on a fake stack: generated
     legal programs (calls, tail calls, PLT calls, setjmp/longjmp at arbitrary depths, throw / unwind /
     cleanup / resume / catch / rethrow) and free (arbitrary) operation sequences.  The state after
     every operation (idx, record_idx, in_exception, every shadow entry with *parent_loc, where control
     went, how many exit hooks ran) and the written records are compared with the model inside Coq;
     the executable checker ok_case (ground-truth real stack) judges the implementation's observations.
 (b) end-to-end: generated C and C++ programs (longjmp to the newest / an older jmp_buf, throw through
     many frames with cleanups, rethrow, exit in nested calls, pthread_exit, vfork+exec, fork, signal
     handlers, -O2 tail calls; -pg and -finstrument-functions) run natively and under `uftrace record`
     (library-call hooking on): stdout and exit status must be equal, and the depth `uftrace replay`
     shows for every call must equal the program's own ground-truth log.  The record stream of
     setjmp/longjmp programs (from `uftrace dump`) and the depths shown are also compared, in Coq, with
     the replay model (agree_replay) and the checker ok_replay.
"""
import json
import os
import re
import shutil
import subprocess

from vf import build, coq
from vf.core import REPO, VERIF, sh

HSRC = os.path.join(VERIF, "harness/c/c11_harness.c")

# index in the harness's fake PLT -> (name, model kind)
PLT = [("foo0", "KNone"), ("foo1", "KNone"), ("foo2", "KNone"), ("foo3", "KNone"),
       ("setjmp", "KSetjmp"), ("_setjmp", "KSetjmp"), ("sigsetjmp", "KSetjmp"),
       ("longjmp", "KLongjmp"), ("siglongjmp", "KLongjmp"), ("__longjmp_chk", "KLongjmp"),
       ("fork", "KFlush"), ("exit", "KFlush"), ("daemon", "KFlush"),
       ("_Unwind_RaiseException", "KExcept"), ("pthread_exit", "KNone"), ("__sigsetjmp", "KSetjmp"), ("vfork", "KFlush")]
VFORK_IDX = 16
KIND_IDX = {}
for _i, (_n, _k) in enumerate(PLT):
    if _n != "vfork":                   # vfork is only used by the dedicated vfork sections
        KIND_IDX.setdefault(_k, []).append(_i)
PLT_FL_VFORK = 8
PLT_FL_RESOLVE = 64


# ================================================================= operations
def top_lines(o):
    """harness lines of one top-level operation"""
    if o[0] == "Vfork":
        _, i, sl, r, child = o
        return ["PLT %d %d %d 0" % (i, sl, r), "VCHILD"] + [op_line(c) for c in child] + ["VPARENT"]
    return [op_line(o)]


def top_coq(o):
    if o[0] == "Vfork":
        _, i, sl, r, child = o
        return "TVfork %d %d %d [%s]" % (100 + i, sl, r, "; ".join(op_coq(c) for c in child))
    return "TOp (%s)" % op_coq(o)


def op_line(o):
    t = o[0]
    if t == "Raw":
        return o[1]
    if t == "Call":
        return "CALL %d %d %d %d" % o[1:]
    if t == "TCall":
        return "TCALL %d %d %d" % o[1:]
    if t == "UCall":
        return "UCALL %d %d" % o[1:]
    if t == "Plt":
        return "PLT %d %d %d %d" % o[1:]
    if t == "TPlt":
        return "TPLT %d %d" % o[1:]
    if t == "Ret":
        return "RET %d" % o[1:]
    if t == "Resume":
        return "RESUME %d %d" % o[1:]
    if t == "Catch":
        return "CATCH %d" % o[1:]
    if t == "Poke":
        return "POKE %d %d" % o[1:]
    return t.upper()


def op_coq(o):
    t = o[0]
    if t == "Plt":
        i, s, r, arg = o[1:]
        return "Plt %s %d %d %d %d" % (PLT[i][1], 100 + i, s, r, arg)
    if t == "TPlt":
        return "TPlt %d %d" % (100 + o[1], o[2])
    if len(o) == 1:
        return t
    return "%s %s" % (t, " ".join("%d" % x for x in o[1:]))


# ================================================================= generator of legal programs
class Prog:
    """tracks the real stack exactly as Model.rstep does and emits only operations rstep accepts.
    realistic=True: every frame makes all its calls at one fixed call-site slot (as compiled code does),
    so dead slots are re-used all the time; False: free choice of slots below the newest frame."""

    def __init__(self, rng, tags, realistic, with_vfork=False):
        self.with_vfork = with_vfork
        self.rng = rng
        self.ops = []
        self.frames = []          # newest first: dict(id, slot, ra, pend, cs)
        self.nid = 1
        self.nra = 10
        self.jb = {}              # jb -> list of frame ids (newest first) below the setjmp call
        self.flight = False
        self.exc = False
        self.extra = 0
        self.stale = []
        self.tags = tags
        self.realistic = realistic
        self.base_cs = 4000 - rng.randrange(1, 4)

    def ra(self):
        self.nra += 1
        return self.nra

    def top_slot(self):
        return self.frames[0]["slot"] if self.frames else 4001

    def call_slot(self):
        if self.realistic:
            return self.frames[0]["cs"] if self.frames else self.base_cs
        return self.top_slot() - self.rng.choice([1, 1, 2, 3, 5])

    def push(self, slot, ra, pend):
        self.frames.insert(0, {"id": self.nid, "slot": slot, "ra": ra, "pend": pend,
                               "cs": slot - self.rng.choice([1, 2, 2, 3, 4])})
        self.nid += 1
        if self.flight:
            self.extra += 1

    def emit(self, *o):
        self.ops.append(tuple(o))

    # ---- plain activity (not while in_exception) ---------------------------
    def call(self):
        s, r = self.call_slot(), self.ra()
        if self.exc:
            if self.extra != 0:
                return False
            fp = self.top_slot() - 1                       # frame pointer of the calling frame
            cands = [fp]
            if all(x <= s - 1 for x in self.stale):
                cands.append(0)                            # -mfentry style: sanitised to parent_loc - 1
            fa = self.rng.choice(cands)
            fa2 = s - 1 if fa < s else fa
            if not (all(x <= fa2 for x in self.stale) and fa2 < self.top_slot()):
                return False
            self.emit("Call", self.rng.randrange(16), s, r, fa)
            self.push(s, r, [False])
            self.exc, self.extra, self.stale = False, 1, []
            self.tags.add("entry-in-exception" + (":fa-sanitised" if fa == 0 else ""))
            return True
        fa = self.top_slot() - 1 if self.frames else s + 3
        self.emit("Call", self.rng.randrange(16), s, r, fa)
        self.push(s, r, [False])
        return True

    def ucall(self):
        s, r = self.call_slot(), self.ra()
        self.emit("UCall", s, r)
        self.push(s, r, [])
        return True

    def plt(self, kind="KNone"):
        s, r = self.call_slot(), self.ra()
        if self.exc:
            # library call from a landing pad (fix a731947): drops the frames unwound so far like a traced entry
            if self.extra != 0 or kind not in ("KNone", "KFlush") or not all(x <= s for x in self.stale):
                return False
            self.emit("Plt", self.rng.choice(KIND_IDX[kind]), s, r, 0)
            self.push(s, r, [True])
            self.exc, self.extra, self.stale = False, 1, []
            self.tags.add("plt-entry-in-exception")
            return True
        self.emit("Plt", self.rng.choice(KIND_IDX[kind]), s, r, 0)
        self.push(s, r, [True])
        if kind == "KFlush":
            self.tags.add("flush-plt")
        return True

    def tail(self, plt):
        if not self.frames or self.exc or (self.flight and self.extra == 0):
            return False
        f = self.frames[0]
        if any(x != plt for x in f["pend"]):
            self.tags.add("tail-call-mixed-chain")
        if plt:
            self.emit("TPlt", self.rng.choice(KIND_IDX["KNone"]), f["slot"])
        else:
            self.emit("TCall", self.rng.randrange(16), f["slot"], f["slot"] + 2)
        f["pend"] = [plt] + f["pend"]
        f["id"] = self.nid
        f["cs"] = f["slot"] - self.rng.choice([1, 2, 3])
        self.nid += 1
        self.tags.add("tail-call-plt" if plt else "tail-call")
        if len(f["pend"]) >= 3:
            self.tags.add("tail-call-chain>=3")
        return True

    def ret(self):
        if not self.frames or (self.flight and self.extra == 0):
            return False
        f = self.frames.pop(0)
        self.emit("Ret", f["slot"])
        if self.flight:
            self.extra -= 1
        if len(f["pend"]) > 1:
            self.tags.add("return-through-chain")
        return True

    def setjmp(self):
        if self.flight:
            return False
        jb = self.rng.randrange(1, 7)
        s, r = self.call_slot(), self.ra()
        self.emit("Plt", self.rng.choice(KIND_IDX["KSetjmp"]), s, r, jb)
        self.jb[jb] = [f["id"] for f in self.frames]
        self.emit("Ret", s)
        self.tags.add("setjmp")
        self.tags.add("setjmp-depth-%s" % ("0" if not self.frames else ("1" if len(self.frames) == 1 else ">=2")))
        return True

    def live_jbs(self):
        ids = [f["id"] for f in self.frames]
        res = []
        for jb, saved in self.jb.items():
            n = len(saved)
            if n <= len(ids) and ids[len(ids) - n:] == saved:
                res.append((jb, len(ids) - n))
        return res

    def longjmp(self):
        lv = self.live_jbs()
        if not lv or self.flight:
            return False
        jb, drop = self.rng.choice(lv)
        s, r = self.call_slot(), self.ra()
        self.emit("Plt", self.rng.choice(KIND_IDX["KLongjmp"]), s, r, jb)
        self.frames = self.frames[drop:]
        self.tags.add("longjmp")
        self.tags.add("longjmp-across-%s" % ("0" if drop == 0 else ("1" if drop == 1 else ">=2")))
        if any(len(f["pend"]) > 1 for f in self.frames):
            self.tags.add("longjmp-over-live-chain")
        return True

    # ---- vfork ------------------------------------------------------------
    def vfork(self):
        """a vfork section: the child works on the parent's stack above the current frames, then execs/exits"""
        # (with an empty shadow stack the parent takes plthook_exit's "FIXME" path: restore_vfork(NULL) and then a
        #  second setup_vfork in the parent - control is right, the parent's trace buffer is not; not generated)
        if self.flight or self.exc or not any(f["pend"] for f in self.frames):
            return False
        s, r = self.call_slot(), self.ra()
        main_ops, self.ops = self.ops, []
        saved = [dict(f) for f in self.frames]
        floor = len(self.frames)
        self.nid += 1                        # the frame of vfork itself (pushed, then popped by the child's return)
        for _ in range(self.rng.randrange(0, 9)):
            x = self.rng.random()
            d = len(self.frames) - floor
            if x < 0.35 and d < 5:
                self.call()
            elif x < 0.45:
                self.ucall()
            elif x < 0.6:
                self.plt()
            elif x < 0.68 and d > 0:
                self.tail(self.rng.random() < 0.3)
            elif x < 0.76 and d > 0:
                self.setjmp()
            elif x < 0.84 and d > 1:
                # an exception caught inside the child (never below the frames of the parent)
                n0 = len(self.frames)
                keep = self.frames[d:]
                self.frames = self.frames[:d]
                ok = self.throw()
                self.frames = self.frames + keep
            elif d > 0:
                self.ret()
        if self.rng.random() < 0.7:
            self.plt("KFlush")               # exec*/_exit stand-in: never returns
            self.tags.add("vfork-child-execs-nested-%d" % min(len(self.frames) - floor - 1, 3))
        child, self.ops = self.ops, main_ops
        self.frames = saved
        self.flight, self.exc, self.extra, self.stale = False, False, 0, []
        self.emit("Vfork", VFORK_IDX, s, r, child)
        self.tags.add("vfork")
        self.tags.add("vfork-child-ops-%s" % ("0" if not child else ("1-3" if len(child) <= 3 else ">3")))
        return True

    # ---- exceptions -------------------------------------------------------
    def small_activity(self):
        """a few nested calls that all return (used inside destructors / handlers)"""
        d0 = len(self.frames)
        for _ in range(self.rng.randrange(0, 4)):
            x = self.rng.random()
            if x < 0.4:
                self.call()
            elif x < 0.55:
                self.ucall()
            elif x < 0.7:
                self.plt()
            elif x < 0.8 and len(self.frames) > d0:
                self.tail(False)
            elif len(self.frames) > d0:
                self.ret()
        while len(self.frames) > d0:
            self.ret()

    def throw(self):
        """throw in the newest frame, caught `up` frames further out"""
        if not self.frames or self.flight:
            return False
        up = self.rng.choice([0, 0, 1, 1, 2, 3, len(self.frames) - 1])
        up = max(0, min(up, len(self.frames) - 1))
        self.emit("Throw")
        self.flight, self.exc, self.extra, self.stale = True, True, 0, []
        self.tags.add("throw")
        self.tags.add("unwind-%s" % ("0" if up == 0 else ("1" if up == 1 else ">=2")))
        for _ in range(up):
            f = self.frames.pop(0)
            self.emit("Unwind")
            if f["pend"]:
                self.stale.insert(0, f["slot"])
            if self.rng.random() < 0.3:
                self.emit("Poke", self.top_slot() - self.rng.randrange(1, 8),
                          self.rng.choice([0, 7, 4294967297, 4294967298, self.ra()]))
                self.tags.add("dead-stack-reused")
            # cleanup landing pad in the frame that is now the newest?
            if self.rng.random() < 0.65:
                did = False
                for _k in range(self.rng.randrange(0, 3)):
                    if self.exc and self.rng.random() < 0.5:
                        if self.call():
                            did = True
                            self.small_activity()
                            self.ret()
                    elif self.rng.random() < 0.5:
                        self.ucall()
                        self.ret()
                        self.tags.add("untraced-call-in-cleanup")
                    elif self.plt():
                        self.ret()
                        self.tags.add("plt-call-in-cleanup")
                # _Unwind_Resume is called at a slot at or above every dropped frame's slot (compiled code: the
                # frame's call-site slot, i.e. exactly the slot of the child just unwound)
                rs_slot = self.call_slot()
                if self.stale and rs_slot < max(self.stale):
                    rs_slot = self.rng.randrange(max(self.stale), self.top_slot())
                if rs_slot in self.stale:
                    self.tags.add("resume-at-slot-of-unwound-frame")
                if self.stale:
                    self.tags.add("resume-with-stale-entries")
                self.emit("Resume", rs_slot, self.ra())
                self.exc, self.extra, self.stale = True, 0, []
                self.tags.add("resume")
                self.tags.add("resume-after-traced-dtor" if did else "resume-without-traced-call")
        self.emit("Catch", self.frames[0]["slot"] - 1)
        self.flight, self.exc, self.extra, self.stale = False, False, 0, []
        self.tags.add("catch")
        if self.rng.random() < 0.3:
            self.small_activity()
            if self.rng.random() < 0.5 and len(self.frames) > 1:
                self.tags.add("rethrow")
                self.throw()
        return True

    def run(self, n):
        rng = self.rng
        while len(self.ops) < n:
            d = len(self.frames)
            x = rng.random()
            if d == 0 or (x < 0.30 and d < 12):
                y = rng.random()
                if y < 0.6:
                    self.call()
                elif y < 0.75:
                    self.ucall()
                elif y < 0.9:
                    self.plt()
                else:
                    self.plt("KFlush")
            elif x < 0.40:
                self.tail(rng.random() < 0.3)
            elif self.with_vfork and x < 0.47:
                self.vfork()
            elif x < 0.52:
                self.setjmp()
            elif x < 0.62:
                self.longjmp()
            elif x < 0.72:
                self.throw()
            else:
                self.ret()
        # unwind everything by plain returns at the end (exercises the records of every frame)
        if rng.random() < 0.7:
            while self.frames:
                self.ret()
        return self.ops


def gen_free(rng, n):
    """arbitrary operation sequences over a small pool of slots (model == code beyond legal programs)"""
    ops = []
    slots = [rng.randrange(20, 60) for _ in range(6)]
    for _ in range(n):
        x = rng.random()
        s = rng.choice(slots)
        r = rng.randrange(1, 50)
        if x < 0.25:
            ops.append(("Call", rng.randrange(16), s, r, rng.choice(slots + [0, 70])))
        elif x < 0.32:
            ops.append(("TCall", rng.randrange(16), s, rng.choice(slots)))
        elif x < 0.36:
            ops.append(("UCall", s, r))
        elif x < 0.52:
            kind = rng.choice(["KNone", "KNone", "KSetjmp", "KLongjmp", "KFlush", "KExcept"])
            ops.append(("Plt", rng.choice(KIND_IDX[kind]), s, r, rng.randrange(1, 4)))
        elif x < 0.56:
            ops.append(("TPlt", rng.choice(KIND_IDX["KNone"]), s))
        elif x < 0.78:
            ops.append(("Ret", s))
        elif x < 0.84:
            ops.append(("Throw",))
        elif x < 0.88:
            ops.append(("Resume", s, r))
        elif x < 0.95:
            ops.append(("Catch", rng.choice(slots + [0, 70])))
        else:
            ops.append(("Poke", s, rng.choice([0, r, 4294967297, 4294967298])))
    return ops


# dedicated scripts
WITNESS_RESUME_ALIAS = [      # regression (fixed by /repo 0bd540c): _Unwind_Resume at the slot of the frame just unwound
    ("Call", 0, 100, 11, 103), ("Call", 1, 90, 12, 99), ("Call", 2, 80, 13, 89),
    ("Throw",), ("Unwind",), ("Resume", 80, 14), ("Unwind",), ("Catch", 99), ("Ret", 100)]
MIXED_CHAIN = [               # regression (/repo fix C01-9): PLT function tail-calls a traced function that throws and catches
    ("Call", 0, 100, 11, 103), ("Plt", 0, 90, 12, 0), ("TCall", 1, 90, 92), ("Throw",), ("Catch", 89), ("Ret", 90), ("Ret", 100)]
WITNESS_FENTRY = [            # -mfentry style frame address: the dead callee's entry survives as a phantom parent
    ("Call", 0, 100, 11, 103), ("Call", 1, 90, 12, 99), ("Call", 2, 80, 13, 89), ("Throw",), ("Unwind",),
    ("Call", 6, 80, 19, 0), ("Ret", 80)]
CORPUS = [
    [("Call", 0, 100, 11, 103), ("Call", 1, 90, 12, 99), ("Plt", 4, 80, 13, 1), ("Ret", 80),
     ("Call", 2, 80, 14, 89), ("Call", 3, 70, 15, 79), ("Plt", 7, 60, 16, 1), ("Ret", 90), ("Ret", 100)],
    [("Call", 0, 100, 11, 103), ("Call", 1, 90, 12, 99), ("Call", 2, 80, 13, 89), ("Throw",), ("Unwind",),
     ("Call", 5, 85, 20, 89), ("Ret", 85), ("Resume", 80, 14), ("Unwind",), ("Catch", 99), ("Ret", 100)],
]


# ================================================================= harness
class Harness:
    def __init__(self, ctx, objdir):
        self.ctx = ctx
        self.exe = os.path.join(ctx.scratch, "c11_harness")
        objs = [o for o in build.libmcount_objs(objdir, "") if not o.endswith("/plthook.op")]
        build.cc([HSRC] + objs, self.exe, objdir, extra=build.LINK_LIBS + ["-DLIBMCOUNT"])
        self.n = 0

    def run_many(self, scripts, batch=400):
        """scripts: list of op lists -> (flags, list of dict(digests, recs, crashed, why))"""
        if len(scripts) > batch:
            flags, out = {}, []
            for k in range(0, len(scripts), batch):
                f, o = self.run_many(scripts[k:k + batch], batch)
                flags = flags or f
                out += o
            return flags, out
        self.n += 1
        d = os.path.join(self.ctx.scratch, "c11d%d" % (self.n % 4))
        shutil.rmtree(d, ignore_errors=True)
        os.makedirs(d)
        e = {k: v for k, v in os.environ.items() if not k.startswith("UFTRACE_")}
        e["UFTRACE_DIR"] = d
        e["UFTRACE_BUFFER"] = str(1 << 20)
        text = "\nNEXT\n".join("\n".join(l for o in ops for l in top_lines(o)) + "\nDUMP" for ops in scripts) + "\n"
        p = subprocess.run([self.exe], input=text, env=e, capture_output=True, text=True, timeout=600)
        for f in os.listdir(d):
            if f.startswith("sid-"):
                sid = f[4:20]
                for g in os.listdir("/dev/shm"):
                    if g.startswith("uftrace-%s-" % sid):
                        try:
                            os.unlink(os.path.join("/dev/shm", g))
                        except OSError:
                            pass
        if "FLAGS" not in p.stdout:
            raise RuntimeError("c11 harness did not start: rc=%s %s" % (p.returncode, p.stderr[-500:]))
        flags = {}
        out = []
        cur = {"digests": [], "recs": [], "crashed": False, "why": "", "ended": False}
        for line in p.stdout.splitlines():
            if line.startswith("FLAGS"):
                for kv in line.split()[1:]:
                    k, v = kv.split("=")
                    flags[k] = int(v)
            elif line.startswith("D "):
                head, _, tail = line.partition("|")
                h = head.split()
                ents = []
                for chunk in tail.split(";"):
                    w = chunk.split()
                    if len(w) == 5:
                        ents.append(tuple(int(x) for x in w))
                cur["digests"].append((int(h[1]), int(h[2]), int(h[3]), ents, int(h[4]), int(h[5])))
            elif line.startswith("R "):
                cur["recs"].append(tuple(int(x) for x in line.split()[1:4]))
            elif line.startswith("CRASH"):
                cur["crashed"] = True
                cur["why"] = line
            elif line.startswith("END") and not line.startswith("ENDCASE"):
                cur["ended"] = True
            elif line.startswith("ENDCASE"):
                if not cur["ended"]:
                    cur["crashed"] = True
                    cur["why"] = cur["why"] or ("libmcount ended the process: wait status %s" % line.split()[1])
                out.append(cur)
                cur = {"digests": [], "recs": [], "crashed": False, "why": "", "ended": False}
        if len(out) != len(scripts):
            raise RuntimeError("c11 harness produced %d results for %d scripts: %s" % (len(out), len(scripts), p.stderr[-300:]))
        return flags, out

    def run(self, ops):
        flags, out = self.run_many([ops])
        out[0]["flags"] = flags
        return out[0]


def digest_flat(d):
    idx, ridx, exc, ents, target, pops = d
    out = [idx, ridx, exc, target, pops]
    for e in ents:
        out += [max(e[0], 0), e[1], e[2], e[3], e[4]]
    return out


def case_coq(ops, res):
    ds = []
    for d in res["digests"]:
        ds += digest_flat(d)
    rs = []
    for r in res["recs"]:
        rs += list(r)
    return "([%s],\n  [%s],\n  [%s], %s)" % (
        "; ".join(op_coq(o) for o in ops), ";".join("%d" % x for x in ds), ";".join("%d" % x for x in rs),
        coq.coq_bool(res["crashed"]))


def case_coqT(ops, res):
    ds = []
    for d in res["digests"]:
        ds += digest_flat(d)
    rs = []
    for r in res["recs"]:
        rs += list(r)
    return "([%s],\n  [%s],\n  [%s], %s)" % (
        "; ".join(top_coq(o) for o in ops), ";".join("%d" % x for x in ds), ";".join("%d" % x for x in rs),
        coq.coq_bool(res["crashed"]))


PRE = """From Coq Require Import NArith List Bool.
Import ListNotations.
Require Import UV.C11.Model.
Local Open Scope N_scope.
"""


def flags_term(flags):
    items = []
    for name, kind in PLT:
        f = flags.get(name, 9999) & ~PLT_FL_RESOLVE
        if name == "vfork":
            f = (f & ~PLT_FL_VFORK) if f & PLT_FL_VFORK else 9999       # FLUSH | VFORK expected
        items.append("(%s, %d)" % (kind, f))
    return "[%s]" % "; ".join(items)


def _eval_chunk(ctx, name, kind, cases, flags):
    if kind == "vfork":
        defs = "Definition cs : list fcaseT := [\n%s\n].\n" % ";\n".join(case_coqT(o, r) for o, r in cases)
        res = coq.run_cases(ctx, name, PRE, defs, [("mismatch", "bad_indices fagreeT cs 0"), ("violations", "bad_indices fokT cs 0"),
                                                   ("illegal", "bad_indices flegalT cs 0")])
        return None if res is None else {k: coq.parse_nat_list(v) for k, v in res.items()}
    defs = "Definition cs : list fcase := [\n%s\n].\n" % ";\n".join(case_coq(o, r) for o, r in cases)
    evals = [("mismatch", "bad_indices fagree cs 0")]
    if kind == "legal":
        evals += [("violations", "bad_indices fok2 cs 0"), ("illegal", "bad_indices flegal cs 0")]
    if flags is not None:
        defs += "Definition plt_flags : list (skind * N) := %s.\n" % flags_term(flags)
        evals.append(("flags_bad", "bad_indices (fun p => kind_flags (fst p) =? snd p) plt_flags 0"))
    res = coq.run_cases(ctx, name, PRE, defs, evals)
    if res is None:
        return None
    return {k: coq.parse_nat_list(v) for k, v in res.items()}


def evaluate_inproc(ctx, legal, free, flags, name="cases", chunk=40, vforks=()):
    """model vs implementation and checker on implementation, inside Coq; chunks evaluated in parallel"""
    from concurrent.futures import ThreadPoolExecutor
    jobs = []
    for kind, cases in (("legal", legal), ("free", free), ("vfork", list(vforks))):
        for k in range(0, len(cases), chunk):
            jobs.append((kind, k, cases[k:k + chunk]))
    out = {"mismatch_legal": [], "mismatch_free": [], "mismatch_vfork": [], "violations": [], "illegal": [], "flags_bad": [],
           "violations_vfork": [], "illegal_vfork": []}
    if not jobs:
        return out
    with ThreadPoolExecutor(max_workers=8) as ex:
        futs = [ex.submit(_eval_chunk, ctx, "%s_%s_%d" % (name, kind, k), kind, cases, flags if n == 0 else None)
                for n, (kind, k, cases) in enumerate(jobs)]
        rs = [f.result() for f in futs]
    for (kind, k, cases), r in zip(jobs, rs):
        if r is None:
            return None
        out["mismatch_" + kind] += [k + i for i in r["mismatch"]]
        sfx = "_vfork" if kind == "vfork" else ""
        out["violations" + sfx] += [k + i for i in r.get("violations", [])]
        out["illegal" + sfx] += [k + i for i in r.get("illegal", [])]
        out["flags_bad"] += r.get("flags_bad", [])
    return out


def case_json(ops, res):
    return {"ops": [list(o) for o in ops], "script": [op_line(o) for o in ops],
            "impl_digests": [list(d[:3]) + [[list(e) for e in d[3]]] + list(d[4:]) for d in res["digests"]],
            "impl_records": [list(r) for r in res["recs"]], "impl_crashed": res["crashed"], "why": res["why"]}


# ================================================================= end-to-end programs
PRELUDE_C = r"""
#define _GNU_SOURCE
#include <stdio.h>
#include <stdlib.h>
#include <string.h>
#include <setjmp.h>
#include <signal.h>
#include <unistd.h>
#include <pthread.h>
#include <sys/wait.h>
#include <sys/time.h>
static __thread volatile int D;   /* the program's own idea of its call depth */
static __thread int TASK;
static volatile int AD;         /* depth at which the atexit handlers run */
static volatile int sink;
static jmp_buf jb[8];
#define NI __attribute__((noinline))
__attribute__((no_instrument_function)) static void logline(const char *what, const char *name, int d)
{
	char buf[96];
	int n = snprintf(buf, sizeof buf, "%s %d %s %d\n", what, TASK, name, d);
	if (write(1, buf, n) < 0) _exit(99);
}
#define ENTER(name) do { logline("E", name, D); D++; } while (0)
#define CALL(f, x) do { int s_ = D; sink += f(x); D = s_; } while (0)
"""

SETJMP_FAMILY = ("setjmp", "_setjmp", "sigsetjmp", "__sigsetjmp")
LONGJMP_FAMILY = ("longjmp", "siglongjmp", "__longjmp_chk")


class E2EGen:
    """generates one deterministic C or C++ program by simulating its execution; everything the
    ground truth needs (depth of every call, order of setjmp/longjmp) is logged by the program itself"""

    def __init__(self, rng, lang, allow_old_jmpbuf=True):
        self.rng = rng
        self.lang = lang
        self.funcs = []            # (name, body lines, is_tail)
        self.nf = 0
        self.njb = 0
        self.latest_jb = None
        self.tags = set()
        self.budget = rng.choice([8, 14, 22])
        self.allow_old = allow_old_jmpbuf
        self.thread_used = False
        self.has_sig = False
        self.fork_used = False
        self.in_phase2 = False
        self.exec_body = None
        self.atexit_fn = None
        self.exc_flavor = rng.choice(["int", "class", "std"])
        # (an asynchronous signal with a traced handler while a C++ exception propagates is a listed finding)
        self.timer = lang == "c" and rng.random() < 0.35

    def new_func(self):
        self.nf += 1
        return "fn_%d" % self.nf

    # a body is generated in EXECUTION order; returns (lines, terminator)
    def gen_body(self, depth, active_jbs, in_try, in_thread, ind="\t"):
        rng = self.rng
        lines = []
        n = rng.randrange(1, 4)
        for _ in range(n):
            if self.budget <= 0:
                break
            x = rng.random()
            if x < 0.42 and depth < 9:
                fn, term = self.gen_func(depth + 1, active_jbs, in_try, in_thread)
                lines.append(ind + "CALL(%s, %d);" % (fn, rng.randrange(1, 9)))
                if term:
                    return lines, term
            elif x < 0.50:
                lines.append(ind + "sink += %d; puts(\"p\");" % rng.randrange(1, 9))
                self.tags.add("libcall")
            elif x < 0.62 and self.lang == "c" and self.njb < 8 and not in_thread:
                k = self.njb
                self.njb += 1
                self.latest_jb = k
                self.tags.add("setjmp")
                sj = rng.choice(["setjmp(jb[%d])", "_setjmp(jb[%d])", "sigsetjmp(jb[%d], 1)"]) % k
                lines.append(ind + "{ volatile int sd_ = D; logline(\"J\", \"jb\", %d);" % k)
                lines.append(ind + "if (%s == 0) {" % sj)
                body, term = self.gen_body(depth, active_jbs + [k], in_try, in_thread, ind + "\t")
                lines += body
                lines.append(ind + "} else { D = sd_; logline(\"B\", \"jb\", %d);" % k)
                if term == ("lj", k):
                    eb, term2 = self.gen_body(depth, active_jbs, in_try, in_thread, ind + "\t")
                    lines += eb
                    lines.append(ind + "} }")
                    if term2:
                        return lines, term2
                else:
                    lines.append(ind + "} }")
                    if term:
                        return lines, term
            elif x < 0.72 and self.lang == "c" and active_jbs:
                cands = [k for k in active_jbs if self.allow_old or k == self.latest_jb]
                if cands:
                    k = rng.choice(cands)
                    if k != self.latest_jb:
                        self.tags.add("longjmp-to-older-jmpbuf")
                    self.tags.add("longjmp")
                    self.tags.add("longjmp-depth-%d" % min(depth, 4))
                    lj = "longjmp" if rng.random() < 0.7 else "siglongjmp"
                    lines.append(ind + "logline(\"L\", \"jb\", %d); %s(jb[%d], 1);" % (k, lj, k))
                    return lines, ("lj", k)
            elif x < 0.62 and self.lang == "c++":
                self.tags.add("try")
                lines.append(ind + "{ volatile int sd_ = D; try {")
                body, term = self.gen_body(depth, active_jbs, in_try + 1, in_thread, ind + "\t")
                lines += body
                if term == ("throw",):
                    self.tags.add("catch")
                    lines.append(ind + "} %s D = sd_; logline(\"C\", \"catch\", ev_);" % self.catch_head())
                    # calls made by the handler may throw past it (regression class of fix 0bd540c)
                    hb, term2 = self.gen_body(depth, active_jbs, in_try, in_thread, ind + "\t")
                    if term2 == ("throw",):
                        self.tags.add("throw-past-catch-handler")
                    lines += hb
                    if not term2 and in_try > 0 and rng.random() < 0.3:
                        self.tags.add("rethrow")
                        lines.append(ind + "\tthrow;")
                        term2 = ("throw",)
                    lines.append(ind + "} }")
                    if term2:
                        return lines, term2
                else:
                    lines.append(ind + "} %s D = sd_; logline(\"C\", \"catch\", ev_); } }" % self.catch_head())
                    if term:
                        return lines, term
            elif x < 0.74 and self.lang == "c++" and in_try > 0:
                self.tags.add("throw")
                self.tags.add("throw-depth-%d" % min(depth, 5))
                lines.append(ind + self.throw_stmt(rng.randrange(1, 50)))
                return lines, ("throw",)
            elif x < 0.78 and not in_thread and not self.has_sig:
                self.has_sig = True
                self.tags.add("signal-handler")
                hn, _t = self.gen_func(depth + 2, [], 0, in_thread, leafish=True)
                self.sig_handler = hn
                lines.append(ind + "signal(SIGUSR1, on_sig); D++; raise(SIGUSR1); D--;")
            elif x < 0.82 and not in_thread:
                self.tags.add("vfork-exec")
                lines.append(ind + "{ pid_t p_ = vfork(); if (p_ == 0) { execl(\"/bin/true\", \"true\", (char *)0); _exit(9); } "
                                   "int st_ = 0; waitpid(p_, &st_, 0); sink += WEXITSTATUS(st_); }")
            elif x < 0.86 and not in_thread and self.lang == "c":
                self.tags.add("fork")
                if not self.fork_used and rng.random() < 0.7 and depth < 8:
                    # the child makes traced calls of its own before it exits (its log is task 2)
                    self.fork_used = True
                    self.tags.add("fork-child-calls")
                    cfn, _t = self.gen_func(depth + 2, [], 0, "child", leafish=rng.random() < 0.4)
                    lines.append(ind + "{ pid_t p_ = fork(); if (p_ == 0) { TASK = 2; CALL(%s, 2); _exit(3); } "
                                       "int st_ = 0; waitpid(p_, &st_, 0); sink += WEXITSTATUS(st_); }" % cfn)
                else:
                    lines.append(ind + "{ pid_t p_ = fork(); if (p_ == 0) { _exit(3); } int st_ = 0; waitpid(p_, &st_, 0); sink += WEXITSTATUS(st_); }")
            elif x < 0.90 and not in_thread and not self.thread_used and in_try == 0 and not active_jbs and self.lang == "c":
                self.thread_used = True
                self.tags.add("thread")
                fn, term = self.gen_func(0, [], 0, True, thread_root=True)
                lines.append(ind + "{ pthread_t t_; pthread_create(&t_, NULL, th_main, NULL); pthread_join(t_, NULL); }")
                self.thread_entry = fn
            elif x < 0.93 and in_thread is True and depth >= 1 and self.lang == "c":
                self.tags.add("pthread_exit-nested-%d" % min(depth, 3))
                lines.append(ind + "pthread_exit(NULL);")
                return lines, ("texit",)
            elif x < 0.95 and not in_thread and depth >= 2 and in_try == 0:
                self.tags.add("exit-nested")
                lines.append(ind + "D++; AD = D; exit(%d);" % rng.randrange(0, 40))
                return lines, ("exit",)
            elif x < 0.965 and not in_thread and depth >= 1 and in_try == 0 and not active_jbs and self.exec_body is None \
                    and not self.in_phase2 and self.budget > 3 and not self.timer:
                # exec of the program itself: the second phase starts again at depth 0 in the same task
                self.tags.add("exec-self")
                self.tags.add("exec-depth-%d" % min(depth, 4))
                lines.append(ind + "execl(\"/proc/self/exe\", \"p\", \"2\", (char *)0); _exit(98);")
                self.in_phase2 = True
                saved = (self.njb, self.latest_jb)
                self.exec_body, _t = self.gen_body(0, [], 0, False)
                return lines, ("exit",)
            else:
                lines.append(ind + "sink += %d;" % rng.randrange(1, 9))
        return lines, None

    def catch_head(self):
        if self.exc_flavor == "class":
            return "catch (Ex ex_) { int ev_ = ex_.v;"          # by value: copy constructor runs in the landing pad
        if self.exc_flavor == "std":
            return "catch (const std::exception &ex_) { int ev_ = atoi(ex_.what());"
        return "catch (int ev_) {"

    def throw_stmt(self, v):
        if self.exc_flavor == "class":
            return "throw Ex(%d);" % v
        if self.exc_flavor == "std":
            return "throw std::runtime_error(\"%d\");" % v
        return "throw %d;" % v

    def gen_func(self, depth, active_jbs, in_try, in_thread, leafish=False, thread_root=False):
        name = self.new_func()
        self.budget -= 1
        idx = len(self.funcs)
        self.funcs.append(None)
        guard = self.lang == "c++" and self.rng.random() < 0.5
        if leafish:
            body, term = (["\tsink += 1;"], None)
        else:
            body, term = self.gen_body(depth, active_jbs, in_try, in_thread)
        tail = None
        if not term and not guard and not leafish and self.budget > 0 and self.rng.random() < 0.3 and depth < 9:
            tfn, term = self.gen_func(depth + 1, active_jbs, in_try, in_thread)
            tail = tfn
            self.tags.add("tail-position-call")
        lines = ["static NI int %s(int x)" % name, "{", "\tENTER(\"%s\");" % name]
        if guard:
            if self.rng.random() < 0.35:
                lines.append("\tIGuard ig_(%d);" % self.rng.randrange(1, 9))
                self.tags.add("cleanup-guard-inline-libcall")
            else:
                lines.append("\tGuard g_(%d);" % self.rng.randrange(1, 9))
                self.tags.add("cleanup-guard")
        lines += body
        if tail:
            lines.append("\treturn %s(x + 1);" % tail)
        else:
            lines.append("\treturn x + 1;")
        lines.append("}")
        self.funcs[idx] = (name, lines)
        return name, term

    def source(self):
        rng = self.rng
        use_atexit = rng.random() < 0.3
        if use_atexit:
            self.atexit_fn, _t = self.gen_func(1, [], 0, False, leafish=True)
            self.tags.add("atexit-handler")
        if self.timer:
            self.tags.add("async-timer-signal")
        body, term = self.gen_body(0, [], 0, False)
        out = [PRELUDE_C]
        if self.lang == "c++":
            out.append("#include <stdexcept>\n#include <exception>\n"
                       "struct Ex { int v; NI Ex(int v_) : v(v_) {} NI Ex(const Ex &o) : v(o.v) { sink += 0; } };\n"
                       "struct Guard { int v; int d0; NI Guard(int v_) : v(v_), d0(D) { sink += v; }\n"
                       "  NI ~Guard() { D = d0; logline(\"E\", \"dtor\", D); sink += v; } };\n"
                       "struct IGuard { int v; IGuard(int v_) : v(v_) {} ~IGuard() { puts(\"g\"); } };\n")
        for name, _ in self.funcs:
            out.append("static int %s(int x);" % name)
        if self.has_sig:
            out.append("static void on_sig(int s) { (void)s; int s_ = D; D++; sink += %s(1); D = s_; }" % self.sig_handler)
        if self.timer:
            # asynchronous: the handler is traced but touches nothing the program prints
            out.append("static volatile long ticks_;\nstatic NI int tick_leaf(int x) { return x + 1; }\n"
                       "static NI void on_tick(int s) { (void)s; ticks_ += tick_leaf(1); }")
        if self.thread_used:
            out.append("static void *th_main(void *a) { (void)a; TASK = 1; D = 1; sink += %s(1); return NULL; }" % self.thread_entry)
        if use_atexit:
            out.append("static void at_exit_fn(void) { D = AD + 1; sink += %s(1); }" % self.atexit_fn)
        for name, lines in self.funcs:
            out.append("\n".join(lines))
        out.append("int main(int argc, char **argv)\n{\n\tsetvbuf(stdout, NULL, _IONBF, 0);\n\t(void)argv;")
        if self.timer:
            out.append("\t{ struct itimerval it_ = { { 0, 200 }, { 0, 200 } }; signal(SIGALRM, on_tick); setitimer(ITIMER_REAL, &it_, NULL); }")
        out.append("\tENTER(\"main\");")
        if use_atexit:
            out.append("\tatexit(at_exit_fn);")
        if self.exec_body is not None:
            out.append("\tif (argc > 1) {")
            out += self.exec_body
            out.append("\t\tlogline(\"S\", \"sink2\", sink);\n\t\tAD = 0; return sink & 31;\n\t}")
        out += body
        out.append("\tlogline(\"S\", \"sink\", sink);\n\tAD = 0;\n\treturn sink & 63;\n}")
        return "\n".join(out) + "\n"


E2E_WITNESS_OLD_JMPBUF = PRELUDE_C + r"""
static NI int fn_leaf(int x) { ENTER("fn_leaf"); return x + 1; }
static NI int fn_c(int x) { ENTER("fn_c"); CALL(fn_leaf, 1); logline("L", "jb", 0); longjmp(jb[0], 1); return x; }
static NI int fn_b(int x) { ENTER("fn_b"); { volatile int sd_ = D; logline("J", "jb", 1);
	if (setjmp(jb[1]) == 0) { CALL(fn_c, 1); } else { D = sd_; } } return x; }
static NI int fn_a(int x) { ENTER("fn_a"); { volatile int sd_ = D; logline("J", "jb", 0);
	if (setjmp(jb[0]) == 0) { CALL(fn_b, 1); } else { D = sd_; logline("B", "jb", 0); CALL(fn_leaf, 2); } } CALL(fn_leaf, 3); return x; }
int main(void) { setvbuf(stdout, NULL, _IONBF, 0); ENTER("main"); CALL(fn_a, 1); CALL(fn_leaf, 4); logline("S", "sink", sink); return 0; }
"""

E2E_WITNESS_RESUME_ALIAS = r"""
#include <cstdio>
volatile int sink;
struct G { int id; G(int i) : id(i) {} ~G() { sink += id; } };     /* inlined at -O2: no traced call in the pad */
__attribute__((noinline)) void t3(int x) { sink += 1; if (x) throw 7; sink += 2; }
__attribute__((noinline)) void t2(int x) { G g(2); sink += 3; t3(x); sink += 4; }
__attribute__((noinline)) void t1(int x) { try { t2(x); } catch (int e) { sink += e; } }
int main() { t1(1); printf("%d\n", sink); return 0; }
"""

E2E_WITNESS_FENTRY = r"""
#include <cstdio>
volatile int sink;
struct G { int id; __attribute__((noinline)) G(int i) : id(i) {} __attribute__((noinline)) ~G() { sink += id; } };
__attribute__((noinline)) void t3(int x) { sink += 1; if (x) throw 7; sink += 2; }
__attribute__((noinline)) void t2(int x) { G g(2); sink += 3; t3(x); sink += 4; }
__attribute__((noinline)) void t1(int x) { try { t2(x); } catch (int e) { sink += e; } }
int main() { t1(1); printf("%d\n", sink); return 0; }
"""

E2E_WITNESS_THROW_IN_HANDLER = r"""
#include <cstdio>
volatile int sink;
__attribute__((noinline)) void thrower(int v) { sink += 1; throw v; }
__attribute__((noinline)) void mid(int x)
{
	try { thrower(1); }
	catch (int e) { sink += e; thrower(2); }      /* a callee of the handler throws past it */
}
int main() { try { mid(1); } catch (int e) { sink += 10 * e; } printf("%d\n", sink); return 0; }
"""

E2E_WITNESS_PAD_LIBCALL = r"""
#include <stdio.h>
int exception = 1;
struct A { A() { if (exception) throw 42; } };
void f() { static A a; puts("f: after static init (no exception)"); }       /* pad calls __cxa_guard_abort@plt */
int main() { try { f(); puts("main: f returned normally"); } catch (int d) { printf("main: caught %d\n", d); } return 0; }
"""

E2E_WITNESS_PAD_LIBCALL_DEPTH = r"""
#include <cstdio>
volatile int sink;
struct G { int v; G() : v(1) {} ~G() { puts("dtor"); } };          /* inlined at -O2: the pad calls puts@plt */
__attribute__((noinline)) void t3(int x) { sink += 1; if (x) throw 7; sink += 2; }
__attribute__((noinline)) void t2(int x) { G g; sink += 3; t3(x); sink += 4; }
__attribute__((noinline)) void t1(int x) { try { t2(x); } catch (int e) { sink += e; } }
int main() { t1(1); printf("%d\n", sink); return 0; }
"""

E2E_WITNESS_ABANDONED_LIBCALL_LJ = r"""
#define _GNU_SOURCE
#include <stdio.h>
#include <signal.h>
#include <setjmp.h>
static sigjmp_buf jb; static volatile int sink;
__attribute__((noinline)) int leaf(int x) { sink += x; return x; }
__attribute__((noinline)) void on_sig(int s) { (void)s; leaf(1); siglongjmp(jb, 1); }
__attribute__((noinline)) int deep(int d) { if (d == 0) { raise(SIGUSR1); return 0; } return deep(d - 1) + 1; }
__attribute__((noinline)) int work(int k) { if (sigsetjmp(jb, 1) == 0) { deep(3); leaf(100); } else { leaf(10 + k); } return leaf(20); }
int main(void) { signal(SIGUSR1, on_sig); work(1); work(2); work(3); leaf(30); printf("%d\n", sink); return 0; }
"""

E2E_WITNESS_ABANDONED_LIBCALL_EXC = r"""
#include <cstdio>
#include <cstdlib>
volatile int sink;
__attribute__((noinline)) int cmp(const void *a, const void *b) { sink++; if (sink == 2 || sink == 5) throw 1; return *(const int *)a - *(const int *)b; }
__attribute__((noinline)) int sorter() { int v[4] = {4, 3, 2, 1}; try { qsort(v, 4, sizeof(int), cmp); } catch (int) { return 0; } return v[0]; }
int main() { sorter(); sorter(); sorter(); printf("%d\n", sink); return 0; }
"""

E2E_WITNESS_HANDLER_IN_LONGJMP = PRELUDE_C + r"""
static sigjmp_buf sjb;
static NI int fn_leaf(int x) { ENTER("fn_leaf"); return x + 1; }
static NI int hleaf(int x) { return x + 1; }
static NI void on_usr2(int s) { (void)s; sink += hleaf(1); }     /* shown inside siglongjmp, not judged */
static NI int fn_jumper(int d) { ENTER("fn_jumper"); if (d == 0) siglongjmp(sjb, 1); CALL(fn_jumper, d - 1); return d; }
static NI int fn_work(int x)
{
	sigset_t set; volatile int sd_;
	ENTER("fn_work");
	sigemptyset(&set); sigaddset(&set, SIGUSR2);
	sd_ = D;
	if (sigsetjmp(sjb, 1) == 0) {
		sigprocmask(SIG_BLOCK, &set, NULL);
		raise(SIGUSR2);              /* stays pending until siglongjmp restores the mask, i.e. inside siglongjmp */
		CALL(fn_jumper, 2);
	}
	D = sd_;
	CALL(fn_leaf, 10);
	return x;
}
int main(void) { setvbuf(stdout, NULL, _IONBF, 0); ENTER("main"); signal(SIGUSR2, on_usr2); CALL(fn_work, 1); CALL(fn_leaf, 2);
	CALL(fn_work, 2); CALL(fn_leaf, 3); logline("S", "sink", sink); return 0; }
"""

E2E_WITNESS_SIGNAL_IN_UNWIND = r"""
#include <cstdio>
#include <csignal>
#include <sys/time.h>
static volatile long ticks; volatile int sink;
__attribute__((noinline)) int hleaf(int x) { return x + 1; }
__attribute__((noinline)) void on_alarm(int) { ticks += hleaf(1); }
__attribute__((noinline)) int deep(int d) { if (d == 0) throw 1; return deep(d - 1) + 1; }
int main()
{
	struct itimerval it = { { 0, 100 }, { 0, 100 } };
	signal(SIGALRM, on_alarm);
	setitimer(ITIMER_REAL, &it, NULL);
	for (int i = 0; i < 3000; i++) { try { deep(60); } catch (int) { sink++; } }
	it.it_value.tv_usec = 0; it.it_interval.tv_usec = 0; setitimer(ITIMER_REAL, &it, NULL);
	printf("%d %d\n", sink, ticks > 0);
	return 0;
}
"""

E2E_WITNESS_PTHREAD_EXIT_C = r"""
#include <stdio.h>
#include <pthread.h>
volatile int sink;
__attribute__((noinline)) int g(int x) { sink += x; pthread_exit(NULL); return x; }
__attribute__((noinline)) int f(int x) { sink += g(x); return x + 1; }
void *th(void *a) { sink += f(1); return NULL; }
__attribute__((noinline)) int after(int x) { sink += x; return x; }
int main(void) { pthread_t t; pthread_create(&t, NULL, th, NULL); pthread_join(t, NULL); after(2); printf("%d\n", sink); return 0; }
"""

E2E_WITNESS_NEST_LIBCALL = r"""
#include <cstdio>
#include <string>
__attribute__((noinline)) int thrower(int x) { if (x > 0) throw std::string("x"); return x; }
int main() { int s = 0; try { s += thrower(1); } catch (std::string &e) { s += (int)e.size(); } printf("%d\n", s); return 6; }
"""

E2E_WITNESS_NEST_LIBCALL_CATCH = r"""
#include <cstdio>
volatile int sink;
#define NI __attribute__((noinline))
struct Guard { int v; NI Guard(int v_) : v(v_) { sink += v; } NI ~Guard() { sink += v; printf("dtor %d\n", v); } };
struct IGuard { int v; IGuard(int v_) : v(v_) {} ~IGuard() { puts("g"); } };
NI int f14(int x) { IGuard ig(2); puts("p"); throw 49; return x; }
NI int f12(int x) { Guard g(6); sink += f14(x); return x; }
NI int f9(int x) { sink += f12(x); return x + 1; }
NI int f8(int x) { try { sink += f9(x); } catch (int e) { printf("catch %d\n", e); throw 48; } return x; }
NI int f7(int x) { Guard g(5); sink += f8(x); return x; }
int main() { try { sink += f7(1); } catch (int e) { printf("catch %d\n", e); } printf("sink %d\n", sink); return 3; }
"""

E2E_WITNESS_NEST_LIBCALL_RETHROW = r"""
#include <cstdio>
volatile int sink;
__attribute__((noinline)) int thrower(int x) { if (x > 0) throw 42; return x; }
__attribute__((noinline)) int mid(int x) { try { sink += thrower(x); } catch (int e) { sink += e; throw; } return x; }
int main() { try { mid(1); } catch (int e) { sink += 10 * e; } printf("%d\n", sink); return 5; }
"""

E2E_WITNESS_VFORK_SIGCHLD = r"""
#include <stdio.h>
#include <signal.h>
#include <unistd.h>
#include <sys/wait.h>
static volatile int reaped;
__attribute__((noinline)) static int note(int x) { return x + 1; }
static void h(int s) { int st; (void)s; if (waitpid(-1, &st, WNOHANG) > 0) reaped += note(0); }
__attribute__((noinline)) static int spawn(void) { pid_t pid = vfork(); if (!pid) _exit(3); return pid > 0; }
__attribute__((noinline)) static int after(int x) { return x + (int)(getppid() > 0); }
/* (SIGCHLD is sent a little after the parent is woken up: usually before vfork's exit hook has run, sometimes later) */
int main(void) { signal(SIGCHLD, h); int r = spawn(); r = after(r) - 1; for (int i = 0; i < 3000 && !reaped; i++) usleep(1000);
	printf("r=%d reaped=%d\n", r, reaped); return 0; }
"""

E2E_WITNESS_VFORK_THREAD = r"""
#include <stdio.h>
#include <pthread.h>
#include <unistd.h>
#include <sys/wait.h>
static volatile int stop, started; static volatile long cnt;
__attribute__((noinline)) static int work(int x) { return x + (getppid() > 0); }
static void *th(void *a) { (void)a; started = 1; while (!stop) cnt += work(1); return NULL; }
__attribute__((noinline)) static int spawn(void) { pid_t pid = vfork(); if (!pid) { for (volatile int i = 0; i < 3000000; i++) ; _exit(3); }
	int st; waitpid(pid, &st, 0); return WEXITSTATUS(st); }
int main(void) { pthread_t t; pthread_create(&t, NULL, th, NULL); while (!started) ; int r = spawn(); r += spawn(); stop = 1;
	pthread_join(t, NULL); printf("r=%d busy=%d\n", r, cnt > 0); return 0; }
"""

E2E_WITNESS_VFORK_FILTER = r"""
#include <stdio.h>
#include <unistd.h>
#include <sys/wait.h>
__attribute__((noinline)) static int spawn(void) { pid_t pid = vfork(); if (!pid) _exit(3); int st; waitpid(pid, &st, 0); return WEXITSTATUS(st); }
__attribute__((noinline)) static int after(int x) { return x + (int)(getppid() > 0); }
int main(void) { int r = spawn(); r += after(0); r += spawn(); r += after(0); printf("r=%d\n", r); return 0; }
"""

E2E_WITNESS_FIRST_LIBCALL_LJ = r"""
#include <stdio.h>
#include <stdlib.h>
#include <setjmp.h>
static jmp_buf jb; static int arm; static volatile int sink;
static int cmp(const void *a, const void *b) { if (arm) longjmp(jb, 1); return *(const int *)a - *(const int *)b; }
/* the first qsort() call of the process is left by longjmp from its callback: the dynamic linker has just resolved
   qsort's GOT slot and only the exit hook - which never runs - would point it back to the hook */
__attribute__((noinline)) static int sorted(int bail) { int arr[4] = { 3, 1, 2, 0 }; arm = bail;
	if (!setjmp(jb)) qsort(arr, 4, sizeof(int), cmp); return arr[0]; }
int main(void) { sink += sorted(1); sink += sorted(0); sink += sorted(0); printf("%d\n", sink); return 0; }
"""

E2E_WITNESS_FIRST_LIBCALL_LJ2 = r"""
#include <stdio.h>
#include <stdlib.h>
#include <setjmp.h>
static jmp_buf jb; static int arm; static volatile int sink;
static int tab[3] = { 0, 1, 2 };
static int cmp2(const void *a, const void *b) { if (arm) longjmp(jb, 1); return *(const int *)a - *(const int *)b; }
/* two library calls deep: qsort -> cmp1 -> bsearch -> cmp2 -> longjmp, both library functions called for the first time */
static int cmp1(const void *a, const void *b) { int key = *(const int *)a; if (bsearch(&key, tab, 3, sizeof(int), cmp2)) sink++;
	return *(const int *)a - *(const int *)b; }
__attribute__((noinline)) static int sorted(int bail) { int arr[4] = { 3, 1, 2, 0 }; arm = bail;
	if (!setjmp(jb)) qsort(arr, 4, sizeof(int), cmp1); return arr[0]; }
int main(void) { sink += sorted(1); sink += sorted(0); sink += sorted(0); printf("%d\n", sink); return 0; }
"""

E2E_WITNESS_MAX_STACK = r"""
#include <setjmp.h>
#include <stdio.h>
jmp_buf jb; volatile int sink;
__attribute__((noinline)) int rec(int n) { if (n == 0) { if (setjmp(jb) == 0) longjmp(jb, 1); return 1; } return rec(n - 1) + 1; }
int main(void) { printf("%d\n", rec(1100)); return 0; }
"""

E2E_WITNESS_PTHREAD_EXIT_CPP = r"""
#include <cstdio>
#include <pthread.h>
volatile int sink;
struct G { int id; __attribute__((noinline)) G(int i) : id(i) {} __attribute__((noinline)) ~G() { sink += id; } };
__attribute__((noinline)) int g(int x) { G a(10); sink += x; pthread_exit(NULL); return x; }
void *th(void *a) { G b(100); sink += g(1); return NULL; }
int main(void) { pthread_t t; pthread_create(&t, NULL, th, NULL); pthread_join(t, NULL); printf("%d\n", sink); return 0; }
"""


XJMP_PRELUDE = PRELUDE_C + r"""
#include <sched.h>
static sigjmp_buf sjb[8];
static volatile int turn_;
__attribute__((no_instrument_function)) static void wait_turn(int k)
{	/* no library call here: it would be traced; a raw sched_yield system call now and then */
	unsigned n_ = 0;
	while (__atomic_load_n(&turn_, __ATOMIC_ACQUIRE) != k) {
		if (++n_ % 64 == 0) { long r_; __asm__ volatile("syscall" : "=a"(r_) : "0"(24L) : "rcx", "r11", "memory"); }
		else __builtin_ia32_pause();
	}
}
__attribute__((no_instrument_function)) static void next_turn(void)
{ __atomic_fetch_add(&turn_, 1, __ATOMIC_ACQ_REL); }
static NI int fn_leaf(int x) { ENTER("fn_leaf"); return x + 1; }
"""


def gen_xjmp(rng, force_cross=False):
    """several threads, each with its own jmp_buf: setjmp at a random depth, longjmp from a few frames deeper, calls
    after the jump.  The threads run one at a time (a baton is passed at the segment boundaries begin / setjmp /
    longjmp), in a random interleaving: replay reads `A:setjmp < B:setjmp < A:longjmp` with B's setjmp shallower or
    deeper than A's, so the `latest setjmp` it guesses at A's longjmp (file-level statics in utils/fstack.c) is another
    task's.  -> (source, tags)"""
    nt = 2 if force_cross else rng.choice([2, 2, 3])
    letters = "abc"
    # random interleaving of the 3 segments of every thread
    pend = [[(t, 0), (t, 1), (t, 2)] for t in range(nt)]
    order = []
    while any(pend):
        t = rng.choice([i for i in range(nt) if pend[i]])
        order.append(pend[t].pop(0))
    depth = [rng.randint(1, 5) for _ in range(nt)]
    if force_cross:
        # A:setjmp (deep) < B:setjmp (shallower) < A:longjmp
        order = [(0, 0), (1, 0), (0, 1), (1, 1), (0, 2), (1, 2)] if rng.random() < 0.5 else \
                [(1, 0), (0, 0), (0, 1), (1, 1), (1, 2), (0, 2)]
        depth = [rng.randint(3, 5), rng.randint(1, 2)]
    turn = {ev: i for i, ev in enumerate(order)}
    tags = {"xjmp", "thread", "longjmp", "xjmp:threads=%d" % nt}
    out = [XJMP_PRELUDE]
    for t in range(nt):
        L = letters[t]
        k, j = depth[t], rng.randint(0, 3)
        fam = rng.choice([("setjmp(jb[%d])", "longjmp(jb[%d], 1)"), ("_setjmp(jb[%d])", "longjmp(jb[%d], 1)"),
                          ("sigsetjmp(sjb[%d], 1)", "siglongjmp(sjb[%d], 1)")])
        names = ["fn_%s%d" % (L, i + 1) for i in range(k)] + ["fn_%sm%d" % (L, i + 1) for i in range(j)]
        for nme in names:
            out.append("static int %s(int x);" % nme)
        jump = ("next_turn(); wait_turn(%d); logline(\"L\", \"jb\", %d); %s;" % (turn[(t, 2)], t, fam[1] % t))
        # the frames between the setjmp and the longjmp
        for i in range(j):
            nme = "fn_%sm%d" % (L, i + 1)
            pre = "CALL(fn_leaf, 1); " if rng.random() < 0.4 else ""
            if i == j - 1:
                out.append("static NI int %s(int x) { ENTER(\"%s\"); %s%s return x; }" % (nme, nme, pre, jump))
            else:
                out.append("static NI int %s(int x) { ENTER(\"%s\"); %sCALL(fn_%sm%d, 1); return x; }" % (nme, nme, pre, L, i + 2))
        down = "CALL(fn_%sm1, 1);" % L if j else jump
        after = " ".join("CALL(fn_leaf, %d);" % (i + 2) for i in range(rng.randint(1, 3)))
        for i in range(k):
            nme = "fn_%s%d" % (L, i + 1)
            post = "CALL(fn_leaf, 9); " if rng.random() < 0.6 else ""
            if i == k - 1:
                out.append("static NI int %s(int x) { ENTER(\"%s\"); { volatile int sd_ = D;\n"
                           "\tnext_turn(); wait_turn(%d); logline(\"J\", \"jb\", %d);\n"
                           "\tif (%s == 0) { %s } else { D = sd_; %s } }\n\t%sreturn x; }"
                           % (nme, nme, turn[(t, 1)], t, fam[0] % t, down, after, post))
            else:
                out.append("static NI int %s(int x) { ENTER(\"%s\"); CALL(fn_%s%d, 1); %sreturn x; }" % (nme, nme, L, i + 2, post))
        out.append("static void *th_%s(void *p) { (void)p; TASK = %d; D = 1; wait_turn(%d); sink += fn_%s1(1); next_turn(); return NULL; }"
                   % (L, t + 1, turn[(t, 0)], L))
        # was the latest setjmp in the trace another task's when this task jumped, and at which depth?
        lj = order.index((t, 2))
        last_sj = max((order.index((u, 1)), u) for u in range(nt) if order.index((u, 1)) < lj)[1]
        if last_sj != t:
            tags.add("xjmp:foreign-guess-%s" % ("shallower" if depth[last_sj] < depth[t] else
                                                "deeper" if depth[last_sj] > depth[t] else "same-depth"))
        else:
            tags.add("xjmp:own-guess")
    out.append("int main(void)\n{\n\tpthread_t th[%d];\n\tsetvbuf(stdout, NULL, _IONBF, 0);\n\tENTER(\"main\");" % nt)
    for t in range(nt):
        out.append("\tpthread_create(&th[%d], NULL, th_%s, NULL);" % (t, letters[t]))
    for t in range(nt):
        out.append("\tpthread_join(th[%d], NULL);" % t)
    out.append("\tCALL(fn_leaf, 5);\n\treturn 3;\n}")
    return "\n".join(out) + "\n", tags



def gen_vff(rng):
    """vfork + exec/_exit below a chain of traced functions, recorded under a filter that leaves vfork (or everything
    around it) unrecorded: -N vfork, -D n, -F f, -N ancestor.  The child makes traced calls before it execs.
    -> (source, record options, tags)"""
    k = rng.randint(1, 3)
    cdepth = rng.randint(0, 2)
    out = [PRELUDE_C, "static volatile int nsp_;", "static NI int fn_leaf(int x) { ENTER(\"fn_leaf\"); return x + 1; }",
           "static NI int fn_post(int x) { ENTER(\"fn_post\"); CALL(fn_leaf, 4); return x + 2; }"]
    leave = rng.choice(["execl(\"/bin/true\", \"true\", (char *)0); _exit(9);", "_exit(3);"])
    for i in range(cdepth, 0, -1):
        nme = "fn_c%d" % i
        pre = "CALL(fn_leaf, 1); " if rng.random() < 0.5 else ""
        body = leave if i == cdepth else "CALL(fn_c%d, 1);" % (i + 1)
        out.append("static NI int %s(int x) { ENTER(\"%s\"); %s%s return x; }" % (nme, nme, pre, body))
    child = "CALL(fn_c1, 1); _exit(8);" if cdepth else leave
    pre = "CALL(fn_leaf, 1); " if rng.random() < 0.5 else ""
    post = "CALL(fn_leaf, 3); " if rng.random() < 0.5 else ""
    out.append("static NI int fn_spawn(int x) { ENTER(\"fn_spawn\"); %s\n"
               "\t{ volatile int sd_ = D; pid_t p_ = vfork();\n"
               "\t  if (p_ == 0) { TASK = ++nsp_; %s }\n"
               "\t  TASK = 0; D = sd_; { int st_ = 0; waitpid(p_, &st_, 0); sink += WEXITSTATUS(st_); } }\n"
               "\tCALL(fn_post, 2); %sreturn x; }" % (pre, child, post))
    nxt = "fn_spawn"
    for i in range(k, 0, -1):
        nme = "fn_p%d" % i
        post = rng.choice(["CALL(fn_leaf, 5); ", "CALL(fn_post, 5); ", ""])
        out.append("static NI int %s(int x) { ENTER(\"%s\"); CALL(%s, 1); %sreturn x; }" % (nme, nme, nxt, post))
        nxt = nme
    twice = rng.random() < 0.3
    out.append("int main(void)\n{\n\tsetvbuf(stdout, NULL, _IONBF, 0);\n\tENTER(\"main\");\n\tCALL(%s, 1);\n%s\tCALL(fn_post, 6);\n"
               "\tlogline(\"S\", \"sink\", sink);\n\treturn sink & 63;\n}" % (nxt, "\tCALL(%s, 2);\n" % nxt if twice else ""))
    opt = rng.choice([["-N", "vfork"], ["-N", "vfork"], ["-D", str(rng.randint(1, k + 3))], ["-D", str(k + 2)],
                      ["-F", "^fn_post"], ["-F", "^fn_spawn"], ["-F", "^fn_p1"], ["-N", "^fn_p%d" % rng.randint(1, k)],
                      ["-N", "^fn_spawn"]])          # (^: a regex, gcc may have named the function fn_spawn.constprop.0)
    tags = {"vfork-filter", "vfork-exec", "vfork-filter:" + opt[0] + (" vfork" if opt[1] == "vfork" else ""),
            "vfork-filter:child-calls=%d" % cdepth}
    return "\n".join(out) + "\n", opt, tags


def expected_under_filter(opt, out):
    """the program's own log (all tasks, in time order) -> {task: [(name, depth)]} that replay must show under `opt`"""
    seq = []
    for line in out.splitlines():
        w = line.split()
        if len(w) == 4 and w[0] == "E":
            seq.append((int(w[1]), w[2], int(w[3])))
    res = {}
    if opt[0] == "-D":
        lim = int(opt[1])
        for t, n, d in seq:
            res.setdefault(t, [])
            if d < lim:
                res[t].append((n, d))
    elif opt[0] == "-F":
        inside = None
        for t, n, d in seq:
            res.setdefault(t, [])
            if inside is not None and d <= inside:
                inside = None
            if inside is None and n == opt[1].lstrip("^"):
                inside = d
            if inside is not None:
                res[t].append((n, d - inside))
    elif opt[0] == "-N" and opt[1] != "vfork":
        inside = None
        for t, n, d in seq:
            res.setdefault(t, [])
            if inside is not None and d <= inside:
                inside = None
            if inside is None and n == opt[1].lstrip("^"):
                inside = d
            if inside is None:
                res[t].append((n, d))
    else:
        for t, n, d in seq:
            res.setdefault(t, []).append((n, d))
        # -N vfork: no record of vfork in the child's task anchors its depth - replay shows the child from depth 0
        for t in res:
            if t != 0 and res[t]:
                d0 = res[t][0][1]
                res[t] = [(n, d - d0) for n, d in res[t]]
    return res


def judge_vff(obs, opt):
    probs = []
    if "error" in obs:
        return [("machinery", obs["error"])]
    if obs["traced_rc"] == 124:
        return [("hang", "the traced program (or uftrace record) did not terminate; native run exits with %s" % obs["native_rc"])]
    if obs["native_rc"] != obs.get("traced_status"):
        probs.append(("status", "exit status %s natively, %s under uftrace record %s (%s)" % (
            obs["native_rc"], obs.get("traced_status"), " ".join(opt), obs.get("record_err", ""))))
    if obs["native_out"] != obs["traced_out"]:
        probs.append(("output", "program output differs between the native and the traced run"))
    if "replay" not in obs:
        return probs + [("replay", "no trace data")]
    want = expected_under_filter(opt, obs["traced_out"])
    rp = {t: own_funcs(e) for t, e in obs["replay"].items()}
    rp = {t: e for t, e in rp.items() if e}
    for task, w in sorted(want.items()):
        if not w:
            continue
        same = [t for t, e in rp.items() if [n for n, _ in e] == [n for n, _ in w]]
        if not same and task != 0:
            # the ENTRY records of the functions the child never returns from are written only when something below
            # them is recorded (a completed call, a recorded exec): a proper prefix is all the trace can hold
            pre = [t for t, e in rp.items() if [n for n, _ in e] == [n for n, _ in w][:len(e)]]
            if pre:
                same = pre[:1]
                w = w[:len(rp[pre[0]])]
            elif not any(e and e[0][0].startswith("fn_c") for e in rp.values()):
                continue
        if not same:
            first = [t for t, e in rp.items() if e and e[0][0] == w[0][0]]
            got = rp[first[0]] if first else []
            probs.append(("calls", "task %d under %s: replay shows calls %s, the filter lets through %s" % (
                task, " ".join(opt), [n for n, _ in got][:14], [n for n, _ in w][:14])))
            continue
        got = rp.pop(same[0])
        if got != w:
            k = [i for i in range(len(got)) if got[i] != w[i]][0]
            probs.append(("depth", "task %d under %s: call #%d %s shown at depth %d, true depth %d" % (
                task, " ".join(opt), k, got[k][0], got[k][1], w[k][1])))
    for t, e in rp.items():
        probs.append(("calls", "under %s replay shows a task with calls %s that the filter should not let through"
                      % (" ".join(opt), [n for n, _ in e][:10])))
    mt = re.search(r"stopped tracing with remaining functions\n=+\n((?:task: \d+\n(?:\[\d+\] .*\n?)*\n?)+)", obs.get("replay_tail", ""))
    if mt:
        main_tids = [t for t, e in obs["replay"].items() if any(n == "main" for n, _ in e)]
        for t in re.findall(r"task: (\d+)", mt.group(1)):
            if int(t) in main_tids:
                probs.append(("replay", "replay ends with `uftrace stopped tracing with remaining functions` for the parent task"))
    return probs


FLAGS = {"c": [["-pg", "-O0"], ["-pg", "-O2"], ["-pg", "-O2", "-D_FORTIFY_SOURCE=2"], ["-finstrument-functions", "-O0"],
               ["-finstrument-functions", "-O2"]],
         "c++": [["-pg", "-O0"], ["-pg", "-O2"], ["-finstrument-functions", "-O1"]]}

LINE_RE = re.compile(r"^\s*\[\s*(\d+)\] \| ( *)([^ ].*)$")


def parse_replay(text):
    """-> {tid: [(name, depth) for every ENTRY line]}"""
    res = {}
    for line in text.splitlines():
        mt = LINE_RE.match(line)
        if not mt:
            continue
        tid, ind, rest = int(mt.group(1)), len(mt.group(2)), mt.group(3)
        if rest.startswith("}") or rest.startswith("/*"):
            continue
        nm = re.match(r"([^\s(]+(?: [^\s(]+)*?)\(", rest)
        if not nm:
            continue
        res.setdefault(tid, []).append((re.sub(r"\.(constprop|isra|part|cold|lto_priv)\.\d+", "", nm.group(1)), ind // 2))
    return res


DUMP_RE = re.compile(r"^\s*[\d.]+\s+(\d+): \[(entry|exit )\] (.*?)\(([0-9a-f]+)\) depth: (\d+)")


def parse_dump(text):
    res = {}
    for line in text.splitlines():
        mt = DUMP_RE.match(line)
        if mt:
            res.setdefault(int(mt.group(1)), []).append((mt.group(2).strip(), mt.group(3), int(mt.group(5))))
    return res


def parse_dump_seq(text):
    """the records of all tasks in the order dump prints them (merged by time) -> [(tid, entry|exit, name, depth)]"""
    res = []
    for line in text.splitlines():
        mt = DUMP_RE.match(line)
        if mt:
            res.append((int(mt.group(1)), mt.group(2).strip(), mt.group(3), int(mt.group(5))))
    return res


def run_e2e_one(ctx, objdir, wd, name, src, lang, flags, timeout_native=10, timeout_rec=25, record_opts=()):
    """compile, run natively and under uftrace; returns a dict of observations"""
    os.makedirs(wd, exist_ok=True)
    ext = ".c" if lang == "c" else ".cpp"
    sp = os.path.join(wd, name + ext)
    open(sp, "w").write(src)
    exe = os.path.join(wd, name)
    cc = ["gcc"] if lang == "c" else ["g++"]
    rc, o, e = sh(cc + flags + ["-w", "-pthread", "-o", exe, sp], timeout=120)
    if rc != 0:
        return {"error": "compile failed: " + e[-400:]}
    nrc, nout, _ = sh(["timeout", str(timeout_native), exe], timeout=timeout_native + 5, cwd=wd)
    data = os.path.join(wd, name + ".data")
    uft = os.path.join(objdir, "uftrace")
    trc, tout, terr = sh(["timeout", str(timeout_rec), uft, "record", "--no-pager", "--no-event",
                          "--libmcount-path=" + objdir] + list(record_opts) + ["-d", data, exe],
                         timeout=timeout_rec + 10, cwd=wd)
    obs = {"native_rc": nrc, "native_out": nout, "traced_rc": trc, "traced_out": tout, "record_err": terr[-300:]}
    if trc == 124 or not os.path.isdir(data):
        return obs
    try:
        mt = re.search(rb"exit_status:(\d+)", open(os.path.join(data, "info"), "rb").read())
        if mt:
            st = int(mt.group(1))
            obs["traced_status"] = (st >> 8) & 0xff if (st & 0x7f) == 0 else 128 + (st & 0x7f)
    except OSError:
        pass
    rrc, rout, rerr = sh(["timeout", "30", uft, "replay", "--no-pager", "-d", data, "-f", "tid"], timeout=40, cwd=wd)
    obs["replay_rc"] = rrc
    obs["replay"] = parse_replay(rout)
    obs["replay_text"] = rout[:6000]
    obs["replay_tail"] = rout[-1500:]
    drc, dout, _ = sh(["timeout", "30", uft, "dump", "--no-pager", "-d", data], timeout=40, cwd=wd)
    obs["dump"] = parse_dump(dout)
    obs["dump_seq"] = parse_dump_seq(dout)
    shutil.rmtree(data, ignore_errors=True)
    return obs


def ground_truth(out):
    """the program's own log -> {task: [(name, depth)]}, setjmp order, longjmp order"""
    calls, sj, lj = {}, [], []
    for line in out.splitlines():
        w = line.split()
        if len(w) != 4:
            continue
        if w[0] == "E":
            calls.setdefault(int(w[1]), []).append((w[2], int(w[3])))
        elif w[0] == "J":
            sj.append(int(w[3]))
        elif w[0] == "L":
            lj.append(int(w[3]))
    return calls, sj, lj


def own_funcs(entries):
    return [(n, d) for n, d in entries if n.startswith("fn_") or n == "main" or n.endswith("::~Guard")]


def judge_e2e(obs):
    """-> (list of problems, stream for Coq or None).  problems: (kind, text)"""
    probs = []
    if "error" in obs:
        return [("machinery", obs["error"])], None
    if obs["traced_rc"] == 124:
        return [("hang", "the traced program (or uftrace record) did not terminate; native run exits with %s" % obs["native_rc"])], None
    if obs["native_rc"] != obs.get("traced_status"):
        probs.append(("status", "exit status %s natively, %s under uftrace record (%s)" % (obs["native_rc"], obs.get("traced_status"), obs.get("record_err", ""))))
    if obs["native_out"] != obs["traced_out"]:
        probs.append(("output", "program output differs between the native and the traced run"))
    if "replay" not in obs:
        probs.append(("replay", "no trace data"))
        return probs, None
    calls, sj, lj = ground_truth(obs["traced_out"])
    rp = obs["replay"]
    main_tid = None
    for tid, ents in rp.items():
        if any(n == "main" for n, _ in ents):
            main_tid = tid
    if main_tid is None:
        probs.append(("replay", "main() not found in replay output"))
        return probs, None
    for task, want in calls.items():
        want2 = [("Guard::~Guard" if n == "dtor" else n, d) for n, d in want]
        if task == 0:
            got = own_funcs(rp[main_tid])
        else:
            others = [own_funcs(e) for t, e in rp.items() if t != main_tid and own_funcs(e)]
            same = [o for o in others if [n for n, _ in o] == [n for n, _ in want2]]
            got = same[0] if same else (others[0] if others else [])
        if [n for n, _ in got] != [n for n, _ in want2]:
            probs.append(("calls", "task %d: replay shows calls %s..., the program made %s..." % (
                task, [n for n, _ in got][:12], [n for n, _ in want2][:12])))
        elif got != want2:
            k = [i for i in range(len(got)) if got[i] != want2[i]][0]
            probs.append(("depth", "task %d: call #%d %s shown at depth %d, true depth %d" % (
                task, k, got[k][0], got[k][1], want2[k][1])))
    # the record stream of the main task for the replay model (setjmp/longjmp programs)
    stream = None
    # (a program that execs itself restarts at depth 0 in the same task: the stream model has no exec record)
    # (nor records of an asynchronous handler between a longjmp ENTRY and the EXIT of its setjmp)
    if sj and main_tid in obs.get("dump", {}) and not any(nm.startswith("exec") or nm == "on_tick" for _, nm, _ in obs["dump"][main_tid]):
        es, si, li = [], 0, 0
        ok = True
        for ty, nm, dep in obs["dump"][main_tid]:
            if ty == "entry":
                if nm in SETJMP_FAMILY:
                    if si >= len(sj):
                        ok = False
                        break
                    es.append("SEntry (SSetjmp %d)" % sj[si])
                    si += 1
                elif nm in LONGJMP_FAMILY:
                    if li >= len(lj):
                        ok = False
                        break
                    es.append("SEntry (SLongjmp %d)" % lj[li])
                    li += 1
                else:
                    es.append("SEntry SNormal")
            else:
                es.append("SExit %d" % dep)
        if ok and len(es) < 3000:
            stream = (es, [d for _, d in rp[main_tid]])
    return probs, stream


def run_e2e(ctx, objdir):
    from concurrent.futures import ThreadPoolExecutor
    rng = ctx.rng
    cases = []
    for i in range(ctx.n(24, 450)):
        lang = "c" if i % 5 < 3 else "c++"
        g = E2EGen(rng, lang)
        src = g.source()
        flags = rng.choice(FLAGS[lang])
        c = {"name": "p%d" % i, "src": src, "lang": lang, "flags": flags, "tags": sorted(g.tags)}
        # --nest-libcall: the PLTs of the libraries are hooked too (the unwinder's own calls, libc internals)
        if flags[0] == "-pg" and rng.random() < 0.3:
            c["record_opts"] = ["-l"]
            c["tags"] = c["tags"] + ["record -l"]
        cases.append(c)
    for i in range(ctx.n(8, 90)):
        src, tags = gen_xjmp(rng, force_cross=(i < 2))
        cases.append({"name": "x%d" % i, "src": src, "lang": "c", "flags": rng.choice(FLAGS["c"]), "tags": sorted(tags)})
    for i in range(ctx.n(10, 120)):
        src, opt, tags = gen_vff(rng)
        cases.append({"name": "v%d" % i, "src": src, "lang": "c", "flags": rng.choice(FLAGS["c"]), "tags": sorted(tags),
                      "record_opts": opt, "vff": True})
    witnesses = [
        {"name": "w_oldjb", "src": E2E_WITNESS_OLD_JMPBUF, "lang": "c", "flags": ["-pg", "-O0"], "key": "replay-older-jmpbuf",
         "what": "longjmp to a jmp_buf that is not the most recent setjmp: replay shows the calls made after the jump one "
                 "level too deep (utils/fstack.c keeps one global setjmp_depth/setjmp_count)"},
        {"name": "w_handler", "src": E2E_WITNESS_THROW_IN_HANDLER, "lang": "c++", "flags": ["-pg", "-O0"], "key": "unwind-resume-alias",
         "what": "an exception leaves a frame whose cleanup pad calls no traced function (here: thrown by a callee of a catch "
                 "handler): libmcount's _Unwind_Resume wrapper overwrites its own return address with the dead callee's and the "
                 "traced program never terminates"},
        {"name": "w_resume", "src": E2E_WITNESS_RESUME_ALIAS, "lang": "c++", "flags": ["-pg", "-O2"], "key": "unwind-resume-alias-O2",
         "what": "same defect with an inlined destructor at -O2"},
        {"name": "w_fentry", "src": E2E_WITNESS_FENTRY, "lang": "c++", "flags": ["-pg", "-mfentry", "-O0"], "key": "fentry-cleanup-depth",
         "what": "-mfentry: a destructor called from a cleanup pad is shown as a child of the function just unwound"},
        {"name": "w_pexit_c", "src": E2E_WITNESS_PTHREAD_EXIT_C, "lang": "c", "flags": ["-pg", "-O0"], "key": "pthread-exit-nested",
         "what": "pthread_exit from a nested traced call: the entries left on the shadow stack are `restored` by mtd_dtor onto "
                 "stack slots that are in use again - the traced program dies with SIGSEGV"},
        {"name": "w_pexit_cpp", "src": E2E_WITNESS_PTHREAD_EXIT_CPP, "lang": "c++", "flags": ["-pg", "-O0"], "key": "pthread-exit-destructors",
         "what": "pthread_exit in a traced C++ thread: the forced unwind stops at the hijacked return address of pthread_exit, "
                 "destructors of the live frames do not run (the program computes a different result)"},
        {"name": "w_padcall", "src": E2E_WITNESS_PAD_LIBCALL, "lang": "c++", "flags": ["-pg", "-O0"], "key": "landing-pad-libcall-swallows-exception",
         "what": "a library function called from a landing pad (__cxa_guard_abort after a throwing static initialiser) was pushed on top "
                 "of the stale entry of the unwound constructor; the unwinder then continued after the throwing call: exception swallowed"},
        {"name": "w_paddepth", "src": E2E_WITNESS_PAD_LIBCALL_DEPTH, "lang": "c++", "flags": ["-pg", "-O2"], "key": "landing-pad-libcall-depth",
         "what": "a library function called by an inlined destructor in a cleanup pad was shown as a child of the function just unwound"},
        {"name": "w_ablj", "src": E2E_WITNESS_ABANDONED_LIBCALL_LJ, "lang": "c", "flags": ["-pg", "-O0"], "key": "abandoned-libcall-untraced-longjmp",
         "what": "a library call (raise) abandoned by siglongjmp from its signal handler was never traced again", "count": ("raise", 3)},
        {"name": "w_abexc", "src": E2E_WITNESS_ABANDONED_LIBCALL_EXC, "lang": "c++", "flags": ["-pg", "-O0"], "key": "abandoned-libcall-untraced-exception",
         "what": "a library call (qsort) abandoned by an exception thrown from its callback was never traced again: later callbacks one level too high",
         "count": ("qsort", 3)},
        {"name": "w_hdlj", "src": E2E_WITNESS_HANDLER_IN_LONGJMP, "lang": "c", "flags": ["-pg", "-O0"], "key": "handler-inside-siglongjmp",
         "what": "a pending signal delivered inside siglongjmp (mask restored before the jump): replay resynchronised with the handler's "
                 "EXIT record and showed every later call at the depth of the longjmp instead of the setjmp"},
        {"name": "w_sigunwind", "src": E2E_WITNESS_SIGNAL_IN_UNWIND, "lang": "c++", "flags": ["-pg", "-O0"], "key": "signal-during-unwinding",
         "what": "an asynchronous signal whose handler is traced arrives while a C++ exception propagates: __mcount_entry takes the handler for "
                 "a function called from a landing pad (in_exception), re-hooks every return address under the unwinder's feet and the "
                 "traced program aborts or crashes (100 us interval timer, 3000 throws through 60 frames)"},
        {"name": "w_maxstack", "src": E2E_WITNESS_MAX_STACK, "lang": "c", "flags": ["-pg", "-O0"], "key": "setjmp-beyond-rstack-max",
         "record_opts": ["--max-stack=2000"],
         "what": "setjmp with more than MCOUNT_RSTACK_MAX (1024) shadow-stack entries under --max-stack=2000: the snapshot array "
                 "of setup_jmpbuf_rstack overflows its malloc block and the traced program aborts"},
        {"name": "w_nestlib", "src": E2E_WITNESS_NEST_LIBCALL, "lang": "c++", "flags": ["-pg", "-O2"], "key": "nest-libcall-exception",
         "record_opts": ["-l"],
         "what": "record --nest-libcall on a C++ program that throws: the unwinder's own library calls were taken for landing-pad "
                 "calls (in_exception), every return address was hooked again under its feet and the program died in std::terminate"},
        {"name": "w_nestlib2", "src": E2E_WITNESS_NEST_LIBCALL_CATCH, "lang": "c++", "flags": ["-pg", "-O0"], "key": "nest-libcall-begin-catch",
         "record_opts": ["-l"],
         "what": "record --nest-libcall: the library calls made inside the real __cxa_begin_catch (above the frame of the throw, already "
                 "unwound) were taken for landing-pad calls and hooked the wrapper's own return slot: the traced program crashed"},
        {"name": "w_nestlib3", "src": E2E_WITNESS_NEST_LIBCALL_RETHROW, "lang": "c++", "flags": ["-pg", "-O0"], "key": "nest-libcall-rethrow",
         "record_opts": ["-l"],
         "what": "record --nest-libcall: __cxa_rethrow starts the unwinder with _Unwind_Resume_or_Rethrow, whose return address was "
                 "hijacked like an ordinary library call: no handler found, std::terminate"},
        {"name": "w_vfhandler", "src": E2E_WITNESS_VFORK_SIGCHLD, "lang": "c", "flags": ["-pg", "-O0"], "key": "vfork-sigchld-handler",
         "what": "a traced SIGCHLD handler runs in the parent before vfork's exit hook: the first library call returning inside it took "
                 "the vfork restore path and the process died with `invalid dynsym idx`"},
        {"name": "w_vfthread", "src": E2E_WITNESS_VFORK_THREAD, "lang": "c", "flags": ["-pg", "-O0"], "key": "vfork-other-thread",
         "what": "another thread of the vforking process leaves a library call while the child runs: it took the saved shadow-stack "
                 "state of the vforking thread (trace of both threads garbled, `remaining functions`)"},
        {"name": "w_vffilter", "src": E2E_WITNESS_VFORK_FILTER, "lang": "c", "flags": ["-pg", "-O0"], "key": "vfork-filter-state",
         "record_opts": ["-N", "vfork"],
         "what": "-N vfork: child and parent both leave the same vfork call, the notrace counter went to -1 and the second vfork() of "
                 "the process was recorded"},
        {"name": "w_firstlj", "src": E2E_WITNESS_FIRST_LIBCALL_LJ, "lang": "c", "flags": ["-pg", "-O0"], "key": "first-libcall-left-by-longjmp",
         "what": "the first ever call of a library function (qsort) is left by longjmp from its callback: restore_jmpbuf_rstack re-armed "
                 "the abandoned PLT frames from index count, but the first one sits at count - 1 (the slot the setjmp entry had): all "
                 "later qsort() calls went straight to libc, unrecorded, their callbacks one level too high", "count": ("qsort", 3)},
        {"name": "w_firstlj2", "src": E2E_WITNESS_FIRST_LIBCALL_LJ2, "lang": "c", "flags": ["-pg", "-O0"], "key": "first-libcall-left-by-longjmp-nested",
         "what": "same, two library calls deep (qsort -> callback -> bsearch -> callback -> longjmp)", "count": ("qsort", 3)},
    ]
    wd = os.path.join(ctx.scratch, "e2e")

    def work(c):
        to = 6 if c["name"] in ("w_resume", "w_handler") else 25
        return run_e2e_one(ctx, objdir, os.path.join(wd, c["name"]), c["name"], c["src"], c["lang"], c["flags"], timeout_rec=to,
                           record_opts=c.get("record_opts", ()))
    with ThreadPoolExecutor(max_workers=8) as ex:
        results = list(ex.map(work, cases + witnesses))
    streams = []
    mstreams = []
    nviol = 0
    for c, obs in zip(cases, results[:len(cases)]):
        probs, stream = (judge_vff(obs, c["record_opts"]), None) if c.get("vff") else judge_e2e(obs)
        tags = ["e2e:" + t for t in c["tags"]] + ["e2e:lang=" + c["lang"], "e2e:" + " ".join(c["flags"])]
        ctx.case(key=("e2e", c["src"], tuple(c["flags"]), tuple(c.get("record_opts", ()))), nontrivial=any(t in c["tags"] for t in ("longjmp", "throw", "exit-nested", "thread", "vfork-exec", "signal-handler")),
                 tags=tags, size=len(c["src"]))
        mach = [p for p in probs if p[0] == "machinery"]
        if mach:
            ctx.broken("e2e machinery: " + mach[0][1])
            continue
        if probs and nviol < 3:
            nviol += 1
            ctx.violation("C11 violated end-to-end (%s): %s" % (probs[0][0], probs[0][1]),
                          {"mode": "e2e", "program": c["src"], "lang": c["lang"], "flags": c["flags"],
                           "record_opts": list(c.get("record_opts", ())), "vff": bool(c.get("vff")),
                           "problems": [list(p) for p in probs],
                           "native": {"rc": obs.get("native_rc"), "out": obs.get("native_out", "")[-1500:]},
                           "traced": {"rc": obs.get("traced_status"), "out": obs.get("traced_out", "")[-1500:]},
                           "replay_text": obs.get("replay_text", "")}, True)
        if stream:
            streams.append((c, stream))
        # several tasks with one jmp_buf each: the merged stream of all tasks for the multi-task replay model
        if "xjmp" in c["tags"] and obs.get("dump_seq") and len(obs["dump_seq"]) < 3000 and "replay" in obs:
            es = []
            for tid, ty, nm, dep in obs["dump_seq"]:
                if ty == "entry":
                    kind = "(SSetjmp 0)" if nm in SETJMP_FAMILY else "(SLongjmp 0)" if nm in LONGJMP_FAMILY else "SNormal"
                    es.append("(%d, SEntry %s)" % (tid, kind))
                else:
                    es.append("(%d, SExit %d)" % (tid, dep))
            mstreams.append((c, es, [(tid, [d for _, d in ents]) for tid, ents in sorted(obs["replay"].items())]))
    if mstreams:
        defs = "Definition ms : list (list (N * sev) * list (N * list N)) := [\n%s\n].\n" % ";\n".join(
            "([%s], [%s])" % ("; ".join(es), "; ".join("(%d, [%s])" % (t, "; ".join("%d" % d for d in ds)) for t, ds in shown))
            for _, es, shown in mstreams)
        ev = coq.run_cases(ctx, "replay_task_streams", PRE, defs, [
            ("mismatch", "bad_indices (fun p => agree_replay_tasks (fst p) (snd p)) ms 0"),
            ("violations", "bad_indices (fun p => ok_replay_tasks (fst p) (snd p)) ms 0")])
        if ev is not None:
            mm = coq.parse_nat_list(ev["mismatch"])
            vv = coq.parse_nat_list(ev["violations"])
            ctx.extra["replay_task_streams_checked"] = len(mstreams)
            for i in vv[:2]:
                c = mstreams[i][0]
                ctx.violation("C11 violated: with several tasks calling setjmp/longjmp the depths `uftrace replay` shows differ from "
                              "the true depths of the merged record stream (ok_replay_tasks rejects the implementation's output)",
                              {"mode": "e2e-replay", "program": c["src"], "flags": c["flags"], "lang": "c"}, True)
            if mm and not vv:
                c = mstreams[mm[0]][0]
                ctx.violation("multi-task replay model and `uftrace replay` disagree on %d merged record stream(s)" % len(mm),
                              {"mode": "e2e-replay", "correspondence": "C11.Model.rpm_run vs uftrace replay",
                               "first_disagreement": {"program": c["src"], "flags": c["flags"], "lang": "c"}}, False)
    # record streams of the setjmp/longjmp programs against the replay model, inside Coq
    wres = dict(zip([w["name"] for w in witnesses], results[len(cases):]))
    wprobs = {}
    for w in witnesses:
        probs, stream = judge_e2e(wres[w["name"]])
        if w.get("count") and not probs:
            nm, want = w["count"]
            got = sum(1 for ents in wres[w["name"]].get("replay", {}).values() for n, d in ents if n == nm)
            if got != want:
                probs.append(("calls", "%s() is called %d times but replay shows %d calls" % (nm, want, got)))
        if w["name"] == "w_firstlj2" and not probs:
            ents_ = [n for e in wres[w["name"]].get("replay", {}).values() for n, d in e]
            if ents_.count("bsearch") != ents_.count("cmp1"):
                probs.append(("calls", "every cmp1() calls bsearch() once: replay shows %d cmp1 and %d bsearch calls"
                              % (ents_.count("cmp1"), ents_.count("bsearch"))))
        if w["name"] in ("w_firstlj", "w_firstlj2") and not probs:
            # main(0) sorted(1) qsort(2) cmp(3): the callbacks of a traced qsort are at depth 3
            for e in wres[w["name"]].get("replay", {}).values():
                ds = sorted(set(d for n, d in e if n in ("cmp", "cmp1")))
                if ds and ds != [3]:
                    probs.append(("depth", "the callbacks of qsort() are shown at depth(s) %s, true depth 3" % ds))
        if w["name"] == "w_vfthread" and not probs:
            rp_ = wres[w["name"]].get("replay", {})
            mains = [[n for n, _ in e if n in ("main", "spawn")] for e in rp_.values() if any(n == "main" for n, _ in e)]
            if mains != [["main", "spawn", "spawn"]]:
                probs.append(("calls", "the main thread called spawn() twice; replay shows %s for the task(s) with main()" % mains))
            if "stopped tracing with remaining functions" in wres[w["name"]].get("replay_tail", ""):
                probs.append(("replay", "replay ends with `uftrace stopped tracing with remaining functions`"))
            if sum(1 for e in rp_.values() for n, _ in e if n == "th") != 1:
                probs.append(("calls", "the thread function th() is not shown exactly once"))
        if w["name"] == "w_vffilter" and not probs:
            nvf = sum(1 for e in wres[w["name"]].get("replay", {}).values() for n, _ in e if n == "vfork")
            if nvf:
                probs.append(("calls", "-N vfork: replay shows %d call(s) of vfork" % nvf))
        if w["name"] == "w_paddepth" and not probs:
            # main(0) t1(1) t2(2): puts() is called from t2's cleanup pad, true depth 3, after t3 was closed
            for ents in wres[w["name"]].get("replay", {}).values():
                names = [n for n, d in ents]
                ds = [d for n, d in ents if n == "puts"]
                if ds and ds != [3]:
                    probs.append(("depth", "puts() called from t2's cleanup pad is shown at depth %s, true depth 3" % ds))
        if w["name"] == "w_fentry" and not probs:
            # main(0) t1(1) t2(2): the destructor of t2's guard runs in t2's cleanup pad, true depth 3
            for ents in wres[w["name"]].get("replay", {}).values():
                ds = [d for n, d in ents if n.endswith("~G")]
                if ds and ds != [3]:
                    probs.append(("depth", "G::~G() called from t2's cleanup pad is shown at depth %s, true depth 3" % ds))
        wprobs[w["name"]] = probs
        if w["name"] == "w_oldjb" and stream:
            streams.append((w, stream))
    if streams:
        defs = "Definition ss : list (list sev * list N) := [\n%s\n].\n" % ";\n".join(
            "([%s], [%s])" % ("; ".join(es), "; ".join("%d" % d for d in shown)) for _, (es, shown) in streams)
        ev = coq.run_cases(ctx, "replay_streams", PRE, defs, [
            ("mismatch", "bad_indices (fun p => agree_replay_entries (fst p) (snd p)) ss 0"),
            ("violations", "bad_indices (fun p => ok_replay_entries (fst p) (snd p)) ss 0")])
        if ev is not None:
            mm = coq.parse_nat_list(ev["mismatch"])
            vv = coq.parse_nat_list(ev["violations"])
            ctx.extra["replay_streams_checked"] = len(streams)
            for i in vv:
                c = streams[i][0]
                ctx.violation("C11 violated: the depths `uftrace replay` shows differ from the true depths of the record stream "
                              "(ok_replay_entries rejects the implementation's output)",
                              {"mode": "e2e-replay", "program": c["src"], "flags": c["flags"]}, True)
            if mm and not vv:
                c = streams[mm[0]][0]
                ctx.violation("replay model and `uftrace replay` disagree on %d record stream(s)" % len(mm),
                              {"mode": "e2e-replay", "correspondence": "C11.Model.rp_run vs uftrace replay",
                               "first_disagreement": {"program": c["src"], "flags": c["flags"]}}, False)
    # dedicated witnesses of the defects found (listed -> KNOWN-FINDING, unlisted -> recorded as candidates)
    cand = []
    for w in witnesses:
        probs = wprobs[w["name"]]
        still = bool(probs) and not any(p[0] == "machinery" for p in probs)
        ctx.case(key=("witness", w["key"]), tags=["e2e:witness:" + w["key"], "e2e:witness-%s" % ("fails" if still else "passes")])
        # listed -> KNOWN-FINDING; unlisted and still failing -> VIOLATION (ctx.known_finding does both)
        ctx.known_finding(w["key"], w["what"], still, {"mode": "e2e", "program": w["src"], "flags": w["flags"],
                                                       "lang": w["lang"], "record_opts": list(w.get("record_opts", ()))})
        if still:
            cand.append({"key": w["key"], "what": w["what"], "observed": [list(p) for p in probs], "flags": w["flags"]})
    ctx.extra["candidate_findings"] = cand


# ================================================================= entry points
def common_meta(ctx):
    ctx.rule = ("in-process: one case = one generated operation sequence (legal program of <= ~70 operations or "
                "free sequence of <= 40) executed by the real libmcount hooks; distinct = distinct sequences; "
                "non-trivial = contains a longjmp, an exception or a tail call.  e2e: one case = one generated "
                "C/C++ program x one instrumentation, run natively and under uftrace record + replay")
    ctx.trusted = [
        "Coq 8.16.1 kernel incl. vm_compute (no native_compute); no axioms (Print Assumptions: closed)",
        "hand-written model coq/theories/C11/Model.v (libmcount mcount.c/plthook.c/misc.c/wrap.c/record.c parts named "
        "in its header; utils/fstack.c setjmp/longjmp fix-up)",
        "generated constants coq/theories/Gen/Consts.v",
        "harness/c/c11_harness.c (fake stack, emulation of the trampolines, of setjmp/longjmp's saved pc and of the "
        "two-line bodies of the exception wrappers of wrap.c) + props/c11.py (generators, parsers of replay/dump)",
        "gcc/g++ code generation and glibc/libgcc unwinder for the end-to-end programs",
    ]
    ctx.assume = [
        "x86_64 (ARCH_CAN_RESTORE_PLTHOOK, auto-recover on), no filters/triggers, threshold 0, clock strictly increasing",
        "real return addresses differ from the two trampolines; frames of the real stack occupy strictly decreasing slots",
        "the frame address handed to the catch hook lies between the catching frame's slot and every unwound slot "
        "(frame pointers kept, as -pg forces)",
        "single thread per jmp_buf (the jmpbuf list and replay's setjmp_depth are shared by all threads/tasks)",
        "shadow stack below MCOUNT_RSTACK_MAX entries at setjmp",
    ]


# ================================================================= vfork with unrecorded entries (Model Part 1c)
MCOUNT_FL_NORECORD = 4


def gen_vfk(rng):
    """one thread: a few live frames, some of them library calls a filter left unrecorded (idx > record_idx), vfork,
    the child's activity on the shared shadow stack, optionally a signal handler running in the parent before vfork's
    exit hook, then every frame returns.  -> (harness lines, [(model op, index of the digest to compare, expected
    return target or None)], tags)"""
    lines, mops, tags = [], [], set()
    st = {"slot": 3990, "ra": 10, "id": 0}
    frames = []

    def nxt():
        st["slot"] -= rng.choice([2, 3, 4])
        st["ra"] += 1
        st["id"] += 1
        return st["slot"], st["ra"], st["id"]

    def ent(i, norec):
        return "{| v_id := %d; v_norec := %s |}" % (i, "true" if norec else "false")

    def push(plt, norec=False, vfork=False, never_returns=False):
        s_, r_, i_ = nxt()
        if vfork:
            lines.append("PLT %d %d %d 0" % (VFORK_IDX, s_, r_))
            mops.append(("SVfork (%s)" % ent(i_, False), len(lines) - 1, None))
        elif plt:
            lines.append("PLT %d %d %d 0" % (11 if never_returns else rng.randrange(4), s_, r_))
            if norec:
                lines.append("NOREC")
            mops.append(("SPush (%s)" % ent(i_, norec), len(lines) - 1, None))
        else:
            fa = frames[-1][0] - 1 if frames else s_ + 3
            lines.append("CALL %d %d %d %d" % (rng.randrange(16), s_, r_, fa))
            mops.append(("SPush (%s)" % ent(i_, False), len(lines) - 1, None))
        frames.append((s_, r_))

    def ret():
        s_, r_ = frames.pop()
        lines.append("RET %d" % s_)
        mops.append(("SPops 1", len(lines) - 1, r_))
        st["slot"] = s_

    push(False)
    nrec_below = 0
    for _ in range(rng.randrange(0, 5)):
        if rng.random() < 0.5:
            push(False)
        else:
            nr = rng.random() < 0.6
            nrec_below += nr
            push(True, nr)
    tags.add("vfk:unrecorded-below-vfork=%d" % min(nrec_below, 2))
    push(False, vfork=True)
    vf = frames.pop()
    parent_frames = list(frames)
    parent_slot = st["slot"]
    if rng.random() < 0.25:
        # a traced signal handler runs in the parent between the entry hook of vfork and the system call
        tags.add("vfk:handler-before-syscall")
        st["slot"] -= 8
        push(False)
        if rng.random() < 0.5:
            push(True, rng.random() < 0.5)
            ret()
        ret()
        frames[:] = parent_frames
        st["slot"] = parent_slot
    lines.append("VCHILD")
    mops.append(("SChild", len(lines) - 1, vf[1]))
    floor = len(frames)
    nchild = rng.randrange(0, 7)
    for _ in range(nchild):
        x = rng.random()
        if x < 0.4:
            push(False)
        elif x < 0.7:
            push(True, rng.random() < 0.5)
        elif len(frames) > floor:
            ret()
    tags.add("vfk:child-depth-at-exec=%d" % min(len(frames) - floor, 3))
    if rng.random() < 0.6:
        push(True, never_returns=True)          # exec*/_exit stand-in
    frames[:] = parent_frames
    st["slot"] = parent_slot - 1
    if rng.random() < 0.4:
        # a traced SIGCHLD handler runs in the parent before vfork's exit hook
        tags.add("vfk:handler-before-exit-hook")
        lines.append("VWAKE")
        mops.append(("SWake", len(lines) - 1, None))
        st["slot"] -= 8
        push(False)
        if rng.random() < 0.7:
            push(True, rng.random() < 0.5)
            ret()
        ret()
    lines.append("VPARENT")
    mops.append(("SParent", len(lines) - 1, vf[1]))
    st["slot"] = parent_slot
    if rng.random() < 0.6:
        push(rng.random() < 0.4)
        ret()
    while frames:
        ret()
    return lines, mops, tags


def run_vfk(ctx, h, cases=None):
    cases = cases or [gen_vfk(ctx.rng) for _ in range(ctx.n(60, 1200))]
    flags, results = h.run_many([[("Raw", l) for l in lines] for lines, _, _ in cases])
    terms, bad_targets = [], []
    for k, ((lines, mops, tags), res) in enumerate(zip(cases, results)):
        ctx.case(key=("vfk", tuple(lines)), nontrivial=True, tags=["inproc:vfork-norecord"] + ["inproc:" + t for t in sorted(tags)],
                 size=len(lines))
        ds = res["digests"]
        obs = []
        for op, di, want in mops:
            if di >= len(ds):
                obs.append("(0, 0, [])")
                bad_targets.append((k, "the implementation stopped after %d operations: %s" % (len(ds), res["why"])))
                break
            idx, ridx, exc, ents, target, pops = ds[di]
            obs.append("(%d, %d, [%s])" % (idx, ridx, "; ".join("true" if e[3] & MCOUNT_FL_NORECORD else "false" for e in ents)))
            if want is not None and target != want:
                bad_targets.append((k, "operation `%s`: control continues at %d, the real return address is %d" % (lines[di], target, want)))
        terms.append("([%s], [%s])" % ("; ".join(op for op, _, _ in mops), "; ".join(obs)))
    defs = "Definition vs : list (list vsop * list (N * N * list bool)) := [\n%s\n].\n" % ";\n".join(terms)
    ev = coq.run_cases(ctx, "vfork_norecord", PRE, defs, [("mismatch", "bad_indices vagree vs 0"), ("violations", "bad_indices vok vs 0")])
    if ev is None:
        return
    mm, vv = coq.parse_nat_list(ev["mismatch"]), coq.parse_nat_list(ev["violations"])
    ctx.extra["vfork_norecord_cases"] = len(cases)

    def payload(k):
        lines, mops, tags = cases[k]
        res = results[k]
        return {"mode": "inproc-vfk", "script": lines, "model_ops": [list(m) for m in mops],
                "impl_digests": [list(d[:3]) + [[list(e) for e in d[3]]] + list(d[4:]) for d in res["digests"]]}
    seen = set()
    for k in vv[:2]:
        seen.add(k)
        ctx.violation("C11 violated in-process (vfork with unrecorded entries): after the parent's return from vfork its shadow stack "
                      "(idx, record_idx, entries) is not what it was when it called vfork", payload(k), True)
    for k, why in bad_targets:
        if k not in seen and len(seen) < 3:
            seen.add(k)
            ctx.violation("C11 violated in-process (vfork with unrecorded entries): " + why, payload(k), True)
    if mm and not seen:
        ctx.violation("vfork index model and libmcount disagree on %d script(s) (idx / record_idx / NORECORD flags)" % len(mm),
                      dict(payload(mm[0]), correspondence="C11.Model.vs_run vs libmcount (prepare_vfork / mcount_restore_vfork)"), False)


def has_nonlocal(ops):
    return any(o[0] in ("Throw", "TCall", "TPlt") or (o[0] == "Plt" and PLT[o[1]][1] == "KLongjmp") for o in ops)


def run_inproc(ctx, objdir):
    h = Harness(ctx, objdir)
    progs = [({"corpus"}, c) for c in CORPUS + [WITNESS_RESUME_ALIAS, MIXED_CHAIN]]
    for i in range(ctx.n(150, 4000)):
        tags = set()
        realistic = ctx.rng.random() < 0.6
        tags.add("slots:call-site" if realistic else "slots:free")
        ops = Prog(ctx.rng, tags, realistic).run(ctx.rng.choice([15, 30, 50, 70]))
        progs.append((tags, ops))
    frees = [WITNESS_FENTRY]
    for i in range(ctx.n(200, 3500)):
        frees.append(gen_free(ctx.rng, ctx.rng.choice([8, 20, 40])))
    vprogs = []
    for i in range(ctx.n(60, 1000)):
        tags = set()
        realistic = ctx.rng.random() < 0.6
        tags.add("slots:call-site" if realistic else "slots:free")
        vprogs.append((tags, Prog(ctx.rng, tags, realistic, with_vfork=True).run(ctx.rng.choice([15, 30, 50]))))
    flags, results = h.run_many([ops for _, ops in progs] + frees + [ops for _, ops in vprogs])
    legal = [(ops, res) for (_, ops), res in zip(progs, results)]
    free = list(zip(frees, results[len(progs):len(progs) + len(frees)]))
    vforks = [(ops, res) for (_, ops), res in zip(vprogs, results[len(progs) + len(frees):])]
    for (tags, ops), res in zip(vprogs, results[len(progs) + len(frees):]):
        ctx.case(key=("vfork", repr(ops)), nontrivial=any(o[0] == "Vfork" for o in ops),
                 tags=["inproc:" + t for t in sorted(tags)] + ["inproc:vfork-program"], size=len(ops))
    for (tags, ops), res in zip(progs, results):
        ctx.case(key=("legal", tuple(ops)), nontrivial=has_nonlocal(ops),
                 tags=["inproc:" + t for t in sorted(tags)], size=len(ops),
                 sample=case_json(ops, res) if len(ctx.samples) < 1 and has_nonlocal(ops) and len(ops) < 25 else None)
    for ops, res in free:
        ctx.case(key=("free", tuple(ops)), nontrivial=has_nonlocal(ops),
                 tags=["inproc:free", "inproc:free-crash" if res["crashed"] else "inproc:free-complete"], size=len(ops))
    ev = evaluate_inproc(ctx, legal, free, flags, vforks=vforks)
    if ev is None:
        return None
    if ev["illegal_vfork"]:
        ops, res = vforks[ev["illegal_vfork"][0]]
        ctx.broken("generator bug: %d generated vfork program(s) are outside the checker's domain" % len(ev["illegal_vfork"]),
                   json.dumps([top_lines(o) for o in ops])[:3000])
    for i in [i for i in ev["violations_vfork"] if i not in ev["illegal_vfork"]][:3]:
        ops, res = vforks[i]
        ctx.violation("C11 violated in-process (vfork): a return in the vfork child or in the parent after it does not reach its "
                      "real caller / wrong number of exit hooks",
                      {"mode": "inproc-vfork", "script": [l for o in ops for l in top_lines(o)],
                       "impl_digests": [list(d[:3]) + [[list(e) for e in d[3]]] + list(d[4:]) for d in res["digests"]]}, True)
    if ev["mismatch_vfork"] and not ev["violations_vfork"] and not ev["violations"]:
        ops, res = vforks[ev["mismatch_vfork"][0]]
        ctx.violation("model and libmcount disagree on %d program(s) with vfork sections" % len(ev["mismatch_vfork"]),
                      {"mode": "inproc-vfork", "correspondence": "C11.Model.lstepT vs libmcount (prepare/setup/restore_vfork)",
                       "script": [l for o in ops for l in top_lines(o)],
                       "impl_digests": [list(d[:3]) + [[list(e) for e in d[3]]] + list(d[4:]) for d in res["digests"]],
                       "impl_records": [list(r) for r in res["recs"]], "why": res["why"]}, False)
    if ev["illegal"]:
        ops, res = legal[ev["illegal"][0]]
        ctx.broken("generator bug: %d generated program(s) are outside the checker's domain (Model.rstep rejects them)"
                   % len(ev["illegal"]), json.dumps(case_json(ops, res))[:3000])
    viol = [i for i in ev["violations"] if i not in ev["illegal"]]
    for i in viol[:3]:
        ops, res = legal[i]
        ctx.violation("C11 violated in-process: after non-local control flow a return (or the second return of "
                      "setjmp, or the unwinder's resume address) does not reach its real caller / the number of "
                      "exit hooks differs from the number of hooked functions sharing the frame / an ENTRY record "
                      "carries a depth other than the number of live traced functions / the written record stream is "
                      "not a faithful stream (replay would not show every record at its depth)",
                      {"mode": "inproc", "case": case_json(ops, res)}, True)
    mism = [("legal", i) for i in ev["mismatch_legal"]] + [("free", i) for i in ev["mismatch_free"]]
    if ev["flags_bad"]:
        mism.append(("flags", [PLT[i][0] for i in ev["flags_bad"]]))
    if mism and not viol:
        kind, i = mism[0]
        if kind == "flags":
            first = {"special_function_flags_differ_for": i, "impl_flags": flags}
        else:
            ops, res = (legal if kind == "legal" else free)[i]
            first = case_json(ops, res)
        ctx.violation("model and libmcount disagree on %d operation sequence(s) (shadow-stack state, return targets or "
                      "records); the property checker accepts the implementation on every legal program explored"
                      % len(mism),
                      {"mode": "inproc", "correspondence": "C11.Model.lstep vs libmcount hooks", "kind": kind,
                       "first_disagreement": first}, False)
    ctx.extra["inproc_disagreements"] = len(mism)
    run_vfk(ctx, h)
    return ev


def run(ctx):
    common_meta(ctx)
    coq.prove(ctx, "C11")
    objdir = build.get_build("plain", ctx.log)
    run_inproc(ctx, objdir)
    run_e2e(ctx, objdir)


def replay(ctx, obj):
    common_meta(ctx)
    coq.prove(ctx, "C11")
    objdir = build.get_build("plain", ctx.log)
    case = obj.get("case") or obj.get("first_disagreement")
    if obj.get("mode") == "inproc" and case and "ops" in case:
        ops = [tuple(o) for o in case["ops"]]
        h = Harness(ctx, objdir)
        res = h.run(ops)
        ev = evaluate_inproc(ctx, [(ops, res)], [(ops, res)], res["flags"], name="replay")
        ctx.case(key="replay", sample=case_json(ops, res))
        ctx.log("replayed in-process case:", ev)
        if ev and ev["violations"]:
            ctx.violation("C11 violated in-process (replay)", {"mode": "inproc", "case": case_json(ops, res)}, True)
        elif ev and ev["mismatch_free"]:
            ctx.violation("model and libmcount disagree (replay)", {"mode": "inproc", "first_disagreement": case_json(ops, res)}, False)
        return
    if obj.get("mode") == "inproc-vfk" and obj.get("script") and obj.get("model_ops"):
        run_vfk(ctx, Harness(ctx, objdir), [(list(obj["script"]), [tuple(m) for m in obj["model_ops"]], set())])
        return
    prog = obj.get("program") or (obj.get("first_disagreement") or {}).get("program")
    if prog:
        flags = obj.get("flags") or (obj.get("first_disagreement") or {}).get("flags") or ["-pg", "-O0"]
        lang = obj.get("lang") or ("c++" if "#include <c" in prog or "try {" in prog else "c")
        obs = run_e2e_one(ctx, objdir, os.path.join(ctx.scratch, "replay"), "r", prog, lang, flags, timeout_rec=15,
                          record_opts=obj.get("record_opts") or ())
        probs, stream = (judge_vff(obs, obj["record_opts"]), None) if obj.get("vff") else judge_e2e(obs)
        ctx.case(key="replay-e2e", sample={"problems": [list(p) for p in probs]})
        ctx.log("replayed end-to-end case:", probs)
        if [p for p in probs if p[0] != "machinery"]:
            ctx.violation("C11 violated end-to-end (replay): %s" % probs[0][1],
                          {"mode": "e2e", "program": prog, "lang": lang, "flags": flags, "problems": [list(p) for p in probs]}, True)
        return
    ctx.log("replay file has no re-executable case")
