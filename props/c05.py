"""C05 - Record-time filters and triggers select exactly the documented calls.

Theorems: coq/theories/Properties_C05.v (state restoration for every configuration under the
always-push shape; for the -pg shape under the exact no-leak guard; the leak itself refuted;
-t/-D semantics = tree-recursive specification, method independent, nested).
Tie: the real libmcount driven in-process (harness/c/mc_harness.c) with env-driven -F/-N/-C/-D/-t
and -T depth=/time=/size=/trace/trace_on/trace_off triggers in simple/regex/glob pattern syntax;
state after every hook and final records compared with the model inside Coq; checkers ok_restore /
ok_nested / specification / method-independence applied to the implementation's outputs;
second line: generated C programs recorded by the real `uftrace record` with -F/-N/-D options.
"""
import os

from vf import build, coq, forest as F, mch, mcgen
from vf.core import sh
from props import c02



def gen_cfg(rng, shape=None):
    cfg = {"shape": shape or rng.choice(["pg", "cyg"]), "trig": {}, "pattern": rng.choice(["simple", "regex", "glob"])}
    if rng.random() < 0.5:
        cfg["depth"] = rng.choice([0, 1, 2, 3, 5])
    if rng.random() < 0.5:
        cfg["threshold"] = rng.choice([1, 5, 10, 100])
    if rng.random() < 0.15:
        cfg["max_stack"] = rng.choice([1, 2, 3, 4])
    facts = rng.choice(["none", "none", "all", "mixed"])     # -F/-N spelled as -T f@filter / f@notrace
    for k in rng.sample(range(6), rng.randrange(0, 4)):
        tr = {}
        if rng.random() < 0.55:
            tr["filter"] = rng.random() < 0.6
            tr["as_action"] = (facts == "all") or (facts == "mixed" and rng.random() < 0.5)
        if rng.random() < 0.3:
            tr["depth"] = rng.choice([0, 1, 2, 3])
        if rng.random() < 0.3:
            tr["time"] = rng.choice([0, 1, 5, 10, 100])
        if rng.random() < 0.15:
            tr["size"] = rng.choice([20, 40, 60, 100])
        if rng.random() < 0.15:
            tr["trace"] = True
        if rng.random() < 0.12:
            tr["trace_off"] = True
        elif rng.random() < 0.12:
            tr["trace_on"] = True       # one trigger never carries both: they cancel in update_trigger
        if rng.random() < 0.12:
            tr["caller"] = True
        if tr:
            cfg["trig"][k] = tr
    return cfg


def has_switch(cfg):
    return any(t.get("trace_on") or t.get("trace_off") for t in cfg["trig"].values())


def is_plain(cfg):
    return not cfg["trig"]


DURS = (0, 1, 4, 5, 6, 9, 10, 11, 99, 100, 101)


def inproc(ctx):
    rng = ctx.rng
    h = mch.Harness(ctx)
    cases = []
    for i in range(ctx.n(110, 800)):
        cfg = gen_cfg(rng)
        fo = F.assign_times(rng, F.gen_shape(rng, 6, rng.choice([3, 8, 20]), 6), durs=DURS)
        evs = F.flatten(fo)
        complete = True
        if rng.random() < 0.12:
            evs = evs[:rng.randrange(1, len(evs) + 1)]
            complete = len(evs) == 2 * sum(c.size() for c in fo)
        res = mcgen.run_case(h, cfg, evs)
        if not res["errno_ok"]:
            ctx.violation("errno not preserved by a hook", {"cfg": cfg, "events": evs}, True)
        cases.append({"cfg": cfg, "forest": fo, "evs": evs, "res": res, "complete": complete})
        tags = ["shape:" + cfg["shape"], "pattern:" + cfg["pattern"]]
        for t in cfg["trig"].values():
            tags += ["trig:" + k for k in t]
        if cfg.get("depth") is not None:
            tags.append("-D")
        if cfg.get("threshold"):
            tags.append("-t")
        ctx.case(key=(repr(cfg), tuple(evs)), nontrivial=len(evs) >= 4 and bool(cfg["trig"] or cfg.get("depth") is not None),
                 tags=tags, size=len(evs),
                 sample={"cfg": cfg, "events": evs[:10], "records": res["recs"][:6]} if len(ctx.samples) < 3 and cfg["trig"] else None)
    # method independence pairs: same cfg and forest under both shapes (default --max-stack)
    pairs = []
    for i in range(ctx.n(40, 300)):
        cfg = gen_cfg(rng, "pg")
        cfg.pop("max_stack", None)
        cfg2 = dict(cfg, shape="cyg")
        fo = F.assign_times(rng, F.gen_shape(rng, 6, rng.choice([3, 8, 20]), 6), durs=DURS)
        evs = F.flatten(fo)
        r1 = mcgen.run_case(h, cfg, evs)
        r2 = mcgen.run_case(h, cfg2, evs)
        pairs.append({"cfg": cfg, "evs": evs, "pg": r1, "cyg": r2})
        cases.append({"cfg": cfg, "forest": fo, "evs": evs, "res": r1, "complete": True})
        cases.append({"cfg": cfg2, "forest": fo, "evs": evs, "res": r2, "complete": True})
        ctx.case(key=("pair", repr(cfg), tuple(evs)), tags=["method-pair"], size=len(evs))
    # stage-1 specification cases: only -F / -N / -D / -t (durations around the threshold, zero durations too)
    selcases = []
    for i in range(ctx.n(50, 350)):
        cfg = {"shape": rng.choice(["pg", "cyg"]), "trig": {}, "pattern": rng.choice(["simple", "regex", "glob"])}
        facts = rng.choice(["none", "none", "all", "mixed"])
        for k in rng.sample(range(6), rng.randrange(1, 4)):
            cfg["trig"][k] = {"filter": rng.random() < 0.6, "as_action": facts == "all" or (facts == "mixed" and rng.random() < 0.5)}
        if rng.random() < 0.6:
            cfg["depth"] = rng.choice([1, 2, 3, 4])
        if rng.random() < 0.5:
            cfg["threshold"] = rng.choice([1, 5, 10])
        fo = F.assign_times(rng, F.gen_shape(rng, 6, rng.choice([5, 12, 25]), 7), durs=(0, 1, 2, 4, 5, 6, 9, 10, 11))
        evs = F.flatten(fo)
        res = mcgen.run_case(h, cfg, evs)
        selcases.append({"cfg": cfg, "forest": fo, "evs": evs, "res": res})
        cases.append({"cfg": cfg, "forest": fo, "evs": evs, "res": res, "complete": True})
        ctx.case(key=("sel", repr(cfg), tuple(evs)), tags=["sel-spec", "shape:" + cfg["shape"], "filter-spelling:" + facts] +
                 ["sel:-F" if any(t["filter"] for t in cfg["trig"].values()) else "sel:no-F",
                  "sel:-N" if any(not t["filter"] for t in cfg["trig"].values()) else "sel:no-N"], size=len(evs))
    # stage-2 specification cases: -F / -N / -C / -D / -t plus depth=, time=, size= and trace trigger actions (well-formed
    # values), both shapes, no restriction on the combination
    sel2cases = []
    for i in range(ctx.n(50, 350)):
        cfg = {"shape": rng.choice(["pg", "cyg"]), "trig": {}, "pattern": rng.choice(["simple", "regex", "glob"])}
        facts = rng.choice(["none", "none", "all", "mixed"])
        use_caller = rng.random() < 0.35
        for k in rng.sample(range(6), rng.randrange(1, 5)):
            tr = {}
            if rng.random() < 0.5:
                tr["filter"] = rng.random() < 0.6
                tr["as_action"] = facts == "all" or (facts == "mixed" and rng.random() < 0.5)
            if rng.random() < 0.45:
                tr["depth"] = rng.choice([1, 1, 2, 3])
            if rng.random() < 0.45:
                tr["time"] = rng.choice([0, 1, 5, 10, 100])
            if rng.random() < 0.25:
                tr["size"] = rng.choice([20, 40, 60, 100])
            if rng.random() < 0.2:
                tr["trace"] = True
            if use_caller and rng.random() < 0.4:
                tr["caller"] = True
            if tr:
                cfg["trig"][k] = tr
        if rng.random() < 0.6:
            cfg["depth"] = rng.choice([1, 2, 3, 4])
        if rng.random() < 0.5:
            cfg["threshold"] = rng.choice([1, 5, 10])
        fo = F.assign_times(rng, F.gen_shape(rng, 6, rng.choice([4, 8, 16]), 5), durs=DURS)
        evs = F.flatten(fo)
        res = mcgen.run_case(h, cfg, evs)
        sel2cases.append({"cfg": cfg, "forest": fo, "evs": evs, "res": res})
        cases.append({"cfg": cfg, "forest": fo, "evs": evs, "res": res, "complete": True})
        ctx.case(key=("sel2", repr(cfg), tuple(evs)), tags=["sel2-spec", "shape:" + cfg["shape"]] +
                 sorted({"sel2:" + k for t in cfg["trig"].values() for k in t if k != "as_action"}), size=len(evs))
    # -Z (record --size-filter) on top of the stage-2 option class: specification sel2 started with the size filter in force
    zcases = []
    for i in range(ctx.n(20, 150)):
        cfg = {"shape": rng.choice(["pg", "cyg"]), "trig": {}, "pattern": rng.choice(["simple", "regex", "glob"]),
               "min_size": rng.choice([20, 40, 60, 100, 300])}
        for k in rng.sample(range(6), rng.randrange(0, 4)):
            tr = {}
            if rng.random() < 0.4:
                tr["filter"] = rng.random() < 0.6
            if rng.random() < 0.35:
                tr["depth"] = rng.choice([1, 2, 3])
            if rng.random() < 0.35:
                tr["time"] = rng.choice([0, 1, 5, 10])
            if rng.random() < 0.4:
                tr["size"] = rng.choice([20, 40, 60, 100])
            if rng.random() < 0.15:
                tr["trace"] = True
            if tr:
                cfg["trig"][k] = tr
        if rng.random() < 0.5:
            cfg["depth"] = rng.choice([1, 2, 3, 4])
        if rng.random() < 0.4:
            cfg["threshold"] = rng.choice([1, 5, 10])
        fo = F.assign_times(rng, F.gen_shape(rng, 6, rng.choice([4, 8, 16]), 5), durs=DURS)
        evs = F.flatten(fo)
        res = mcgen.run_case(h, cfg, evs)
        zcases.append({"cfg": cfg, "forest": fo, "evs": evs, "res": res})
        ctx.case(key=("sel2z", repr(cfg), tuple(evs)), tags=["sel2-spec", "sel2:-Z", "shape:" + cfg["shape"]] +
                 sorted({"sel2:" + k for t in cfg["trig"].values() for k in t}), size=len(evs))
    # the finish trigger: one function has -T f@finish, on top of a random option set (filters, depth limit, switches);
    # the records of the implementation against the model run that stops at the first firing entry, and - same
    # options and history - the two instrumentation shapes against each other
    fincases = []
    for i in range(ctx.n(20, 120)):
        cfg = {"trig": {}, "pattern": rng.choice(["simple", "regex", "glob"])}
        ks = rng.sample(range(6), rng.randrange(1, 4))
        cfg["trig"][ks[0]] = {"finish": True}
        if rng.random() < 0.3:
            cfg["trig"][ks[0]]["filter"] = rng.random() < 0.5
        for k in ks[1:]:
            tr = {}
            r = rng.random()
            if r < 0.35:
                tr["filter"] = rng.random() < 0.6
            elif r < 0.5:
                tr["depth"] = rng.choice([0, 1, 2])
            elif r < 0.65:
                tr["time"] = rng.choice([0, 5, 100])
            elif r < 0.8:
                tr["trace_off"] = True
            else:
                tr["trace_on"] = True
            cfg["trig"][k] = tr
        if rng.random() < 0.6:
            cfg["depth"] = rng.choice([1, 2, 3])
        if rng.random() < 0.3:
            cfg["threshold"] = rng.choice([1, 5, 10])
        fo = F.assign_times(rng, F.gen_shape(rng, 6, rng.choice([4, 8, 16]), 5), durs=DURS)
        evs = F.flatten(fo)
        r1 = mcgen.run_case(h, dict(cfg, shape="pg"), evs)
        r2 = mcgen.run_case(h, dict(cfg, shape="cyg"), evs)
        fincases.append({"cfg": cfg, "evs": evs, "pg": r1, "cyg": r2})
        ctx.case(key=("finish", repr(cfg), tuple(evs)), tags=["finish-trigger"] +
                 sorted({"fin:" + k for t in cfg["trig"].values() for k in t}), size=len(evs))
    # option LISTS (utils/filter.c setup_trigger / update_trigger and the counts): several options may hit the same function,
    # a later one overrides an earlier one action by action, patterns may match several functions; the trigger table and
    # filter_count / caller_count come from the model (Mcount/Table.v cfg_of_opts).  Both shapes, same options + history.
    optcases = []
    for i in range(ctx.n(30, 160)):
        pt = rng.choice(["regex", "regex", "glob", "simple"])
        cfg = {"pattern": pt, "opts": []}

        def some_ks():
            if pt == "simple" or rng.random() < 0.4:
                return [rng.randrange(6)]
            return sorted(rng.sample(range(6), rng.randrange(2, 4)))
        # UFTRACE_FILTER: -F / -N in command-line order
        fopts = []
        for _ in range(rng.randrange(1, 4)):
            inc = rng.random() < 0.5
            fopts.append({"kind": "F" if inc else "N", "ks": some_ks(), "acts": [("filter", inc)]})
        # UFTRACE_TRIGGER
        topts = []
        for _ in range(rng.randrange(0, 3)):
            acts = []
            r = rng.random()
            if r < 0.3:
                acts.append(("filter", rng.random() < 0.5))
            if rng.random() < 0.4:
                acts.append(("depth", rng.choice([1, 2, 3])))
            if rng.random() < 0.3:
                acts.append(("time", rng.choice([0, 5, 100])))
            if rng.random() < 0.2:
                acts.append(("trace", True))
            if rng.random() < 0.15:
                acts.append((rng.choice(["trace_on", "trace_off"]), True))
            if not acts:
                acts.append(("depth", 2))
            topts.append({"kind": "T", "ks": some_ks(), "acts": acts})
        copts = [{"kind": "C", "ks": some_ks(), "acts": [("caller", True)]}] if rng.random() < 0.25 else []
        cfg["opts"] = fopts + topts + copts
        if rng.random() < 0.5:
            cfg["depth"] = rng.choice([1, 2, 3, 4])
        if rng.random() < 0.4:
            cfg["threshold"] = rng.choice([1, 5, 10])
        fo = F.assign_times(rng, F.gen_shape(rng, 6, rng.choice([4, 8, 16]), 5), durs=DURS)
        evs = F.flatten(fo)
        r1 = mcgen.run_case(h, dict(cfg, shape="pg"), evs)
        r2 = mcgen.run_case(h, dict(cfg, shape="cyg"), evs)
        optcases.append({"cfg": cfg, "evs": evs, "pg": r1, "cyg": r2})
        overlap = len({k for o in cfg["opts"] for k in o["ks"]}) < sum(len(o["ks"]) for o in cfg["opts"])
        ctx.case(key=("opts", repr(cfg), tuple(evs)), tags=["option-list", "opts:overlap=" + str(overlap), "opts:pattern=" + pt],
                 size=len(evs))
    # record --disable (tracing starts switched off) with trace_on / trace_off triggers and filters
    offcases = []
    for i in range(ctx.n(15, 100)):
        cfg = {"shape": rng.choice(["pg", "cyg"]), "trig": {}, "pattern": "simple", "disable": True}
        ks = rng.sample(range(6), rng.randrange(1, 4))
        cfg["trig"][ks[0]] = {"trace_on": True}
        for k in ks[1:]:
            r = rng.random()
            cfg["trig"][k] = ({"trace_off": True} if r < 0.35 else {"filter": rng.random() < 0.6} if r < 0.6 else
                              {"depth": rng.choice([1, 2])} if r < 0.8 else {"time": rng.choice([5, 100])})
        if rng.random() < 0.4:
            cfg["depth"] = rng.choice([2, 3, 4])
        if rng.random() < 0.4:
            cfg["threshold"] = rng.choice([1, 5])
        fo = F.assign_times(rng, F.gen_shape(rng, 6, rng.choice([6, 12, 20]), 5), durs=DURS)
        evs = F.flatten(fo)
        res = mcgen.run_case(h, cfg, evs)
        offcases.append({"cfg": cfg, "evs": evs, "res": res})
        ctx.case(key=("disable", repr(cfg), tuple(evs)), tags=["record--disable", "shape:" + cfg["shape"]], size=len(evs))
    # ---- evaluate in Coq
    terms = [mcgen.case_term(c["cfg"], c["evs"], c["res"]) for c in cases]
    defs = "Definition cases : list case4 := [\n%s\n].\n" % ";\n".join(terms)
    defs += "Definition nestchk : list bool := [%s].\n" % "; ".join(
        coq.coq_bool(c["complete"] and not has_switch(c["cfg"])) for c in cases)
    # embedded sub-history (theorems C05_recorded_is_embedded_subhistory / C02_..._any_depth): every switch-free
    # option set, complete forest of any depth
    embi = [i for i, c in enumerate(cases) if c["complete"] and not has_switch(c["cfg"])]     # any depth, also beyond --max-stack
    defs += "Definition embchk : list bool := [\n%s\n].\n" % ";\n".join(
        "ok_emb %s %s" % (F.coq_forest(cases[i]["forest"]), mcgen.coq_recs(cases[i]["res"]["recs"])) for i in embi)
    plain = [(i, c02.coq_plain_check(c["cfg"], c["forest"], c["res"]["recs"])) for i, c in enumerate(cases)
             if is_plain(c["cfg"]) and c["complete"] and not (c["cfg"].get("threshold") and
                                                              c02.height(c["forest"]) > (c["cfg"].get("max_stack") or 1024))]
    defs += "Definition plainchk : list bool := [\n%s\n].\n" % ";\n".join(t for _, t in plain)
    pair_terms = ["(%s, %s, %s, %s)" % (F.coq_cfg(p["cfg"], mch.SIZES), F.coq_events(p["evs"]),
                                        mcgen.coq_recs(p["pg"]["recs"]), mcgen.coq_recs(p["cyg"]["recs"])) for p in pairs]
    defs += "Definition pairs : list (cfg * list ev * list seen5 * list seen5) := [\n%s\n].\n" % ";\n".join(pair_terms)
    sel_terms = ["ok_sel [%s] %s %d %d %s %s" % (
        "; ".join("(%d, Some %s)" % (256 * k, coq.coq_bool(t["filter"])) for k, t in sorted(c["cfg"]["trig"].items())),
        coq.coq_bool(any(t["filter"] for t in c["cfg"]["trig"].values())),
        c["cfg"].get("depth") if c["cfg"].get("depth") is not None else 1024, c["cfg"].get("threshold") or 0,
        F.coq_forest(c["forest"]), mcgen.coq_recs(c["res"]["recs"])) for c in selcases]
    defs += "Definition selchk : list bool := [\n%s\n].\n" % ";\n".join(sel_terms)

    def opt(v, f="%d"):
        return "None" if v is None else "Some " + (f % v)
    sizes_term = "[%s]" % "; ".join("(%d, %d)" % (256 * i, z) for i, z in enumerate(mch.SIZES))
    def sel2_term(c, z=None):
        tg = "; ".join("(%d, {| sf := %s; sd := %s; stm := %s; ssz := %s; str := %s; sc := %s; sl := %s |})" % (
            256 * k, "None" if t.get("filter") is None else "Some " + coq.coq_bool(t["filter"]),
            opt(t.get("depth")), opt(t.get("time")), opt(t.get("size")), coq.coq_bool(t.get("trace")),
            coq.coq_bool(t.get("caller")), "None" if t.get("loc") is None else "Some " + coq.coq_bool(t["loc"]))
            for k, t in sorted(c["cfg"]["trig"].items()))
        return "%s [%s] %s %s %s %s %d %d %s%s %s" % (
            "ok_sel2" if z is None else "ok_sel2z", tg, sizes_term,
            coq.coq_bool(any(t.get("filter") is True for t in c["cfg"]["trig"].values())),
            coq.coq_bool(any(t.get("caller") for t in c["cfg"]["trig"].values())),
            coq.coq_bool(any(t.get("loc") is True for t in c["cfg"]["trig"].values())),
            c["cfg"].get("depth") if c["cfg"].get("depth") is not None else 1024, c["cfg"].get("threshold") or 0,
            "" if z is None else "%d " % z, F.coq_forest(c["forest"]), mcgen.coq_recs(c["res"]["recs"]))
    sel2_terms = [sel2_term(c) for c in sel2cases]
    defs += "Definition zcases : list (N * case4) := [\n%s\n].\n" % ";\n".join(
        "(%d, %s)" % (c["cfg"]["min_size"], mcgen.case_term(c["cfg"], c["evs"], c["res"])) for c in zcases)
    defs += "Definition sel2zchk : list bool := [\n%s\n].\n" % ";\n".join(sel2_term(c, c["cfg"]["min_size"]) for c in zcases)
    defs += "Definition sel2chk : list bool := [\n%s\n].\n" % ";\n".join(sel2_terms)
    defs += "Definition fincases : list (cfg * list ev * list seen5 * bool) := [\n%s\n].\n" % ";\n".join(
        "(%s, %s, %s, %s)" % (F.coq_cfg(dict(c["cfg"], shape=sh), mch.SIZES), F.coq_events(c["evs"]),
                              mcgen.coq_recs(c[sh]["recs"]), coq.coq_bool(sh == "pg"))
        for c in fincases for sh in ("pg", "cyg"))
    defs += "Definition offcases : list case4 := [\n%s\n].\n" % ";\n".join(
        mcgen.case_term(c["cfg"], c["evs"], c["res"]) for c in offcases)
    defs += "Definition optcases : list case4 := [\n%s\n].\n" % ";\n".join(
        mcgen.case_term(dict(c["cfg"], shape=sh), c["evs"], c[sh]) for c in optcases for sh in ("pg", "cyg"))
    res = coq.run_cases(ctx, "c05_cases", mcgen.PRE, defs, [
        ("sel", "bad_indices (fun b : bool => b) selchk 0"),
        ("sel2", "bad_indices (fun b : bool => b) sel2chk 0"),
        ("sel2z", "bad_indices (fun b : bool => b) sel2zchk 0"),
        ("opts", "bad_indices agree4 optcases 0"),
        ("off", "bad_indices agree4off offcases 0"),
        ("fin", "bad_indices (fun p : cfg * list ev * list seen5 * bool => let '(a, b, r, _) := p in ok_fin a b r) fincases 0"),
        ("finfired", "bad_indices (fun p : cfg * list ev * list seen5 * bool => let '(a, b, _, _) := p in negb (fin_fired a b)) "
                     "fincases 0"),
        ("zmismatch", "bad_indices agree4z zcases 0"),
        ("mismatch", "bad_indices agree4 cases 0"),
        ("leaky", "bad_indices (fun c : case4 => let '(a, b, _, _) := c in negb (leaky a b)) cases 0"),
        ("scope", "bad_indices (fun c : case4 => let '(a, b, _, _) := c in negb (rejected_trigger a b)) cases 0"),
        ("restore", "bad_indices (fun c : case4 => let '(a, b, o, _) := c in ok_restore b o) cases 0"),
        ("nested", "bad_indices (fun p : case4 * bool => let '((a, b, _, r), chk) := p in "
                   "negb chk || ok_nested r) (combine cases nestchk) 0"),
        ("plain", "bad_indices (fun b : bool => b) plainchk 0"),
        ("emb", "bad_indices (fun b : bool => b) embchk 0"),
        ("method", "bad_indices (fun p : cfg * list ev * list seen5 * list seen5 => let '(a, b, r1, r2) := p in "
                   "list_eqb seen_eqb r1 r2) pairs 0"),
    ], timeout=1500)
    if res is None:
        return
    R = {k: coq.parse_nat_list(v) for k, v in res.items()}
    ctx.extra["cases_leaving_a_rejected_change_behind"] = len(R["leaky"])      # must be 0 since the repair
    ctx.extra["cases_with_a_rejected_call_whose_trigger_changes_state"] = len(R["scope"])
    ctx.extra["disagreements_checked"] = len(R["mismatch"])
    ctx.extra["plain_spec_checks"] = len(plain)
    ctx.extra["embedded_subhistory_checks"] = len(embi)

    def rep(i, what, extra=None):
        c = cases[i]
        o = {"mode": "inproc", "cfg": c["cfg"], "events": c["evs"], "impl_states": c["res"]["states"],
             "impl_records": c["res"]["recs"], "env": mch.cfg_env(c["cfg"])}
        o.update(extra or {})
        ctx.violation(what, o, True)
    for i in R["restore"][:2]:
        rep(i, "C05: the filter state after a function returned differs from the state before the call")
    for i in R["nested"][:2]:
        rep(i, "C05: recorded stream is not properly nested (a recorded call lacks a recorded ancestor / depth wrong)")
    for j in R["plain"][:2]:
        rep(plain[j][0], "C05: recorded trace differs from the documented -t/-D semantics")
    for j in R["emb"][:2]:
        rep(embi[j], "C05: the recorded stream is not an embedded sub-history of the call history (a record that is no "
                     "call's ENTRY/EXIT, wrong order/time/depth, or a recorded call without its recorded ancestors)")
    for j in R["sel"][:2]:
        c = selcases[j]
        ctx.violation("C05: recorded trace differs from the documented -F/-N/-D semantics (specification sel)",
                      {"mode": "inproc", "cfg": c["cfg"], "events": c["evs"], "impl_records": c["res"]["recs"],
                       "env": mch.cfg_env(c["cfg"])}, True)
    for j in R["sel2"][:2]:
        c = sel2cases[j]
        ctx.violation("C05: recorded trace differs from the documented semantics of -F/-N/-C/-D/-t with depth=/time=/trace "
                      "triggers (specification sel2)",
                      {"mode": "inproc", "cfg": c["cfg"], "events": c["evs"], "impl_records": c["res"]["recs"],
                       "env": mch.cfg_env(c["cfg"])}, True)
    for j in R["sel2z"][:2]:
        c = zcases[j]
        ctx.violation("C05: recorded trace differs from the documented semantics of -Z together with -F/-N/-D/-t and "
                      "depth=/time=/size=/trace triggers (specification sel2 with the size filter in force)",
                      {"mode": "inproc", "cfg": c["cfg"], "events": c["evs"], "impl_records": c["res"]["recs"],
                       "env": mch.cfg_env(c["cfg"])}, True)
    if R["zmismatch"] and not R["sel2z"]:
        c = zcases[R["zmismatch"][0]]
        ctx.violation("model and libmcount disagree on %d -Z case(s); the C05 checkers accept every explored "
                      "implementation output" % len(R["zmismatch"]),
                      {"correspondence": "UV.Mcount.Model (init_z) vs libmcount hooks (state after each hook + records)",
                       "cfg": c["cfg"], "env": mch.cfg_env(c["cfg"]), "events": c["evs"],
                       "impl_states": c["res"]["states"], "impl_records": c["res"]["recs"]}, False)
    ctx.extra["finish_cases_in_which_the_trigger_fired"] = len(R["finfired"])
    finm = [j for j, c in enumerate(fincases) if c["pg"]["recs"] != c["cyg"]["recs"]]
    for j in finm[:2]:
        c = fincases[j]
        ctx.violation("C05: with a finish trigger the recorded trace depends on the instrumentation method",
                      {"mode": "pair", "cfg": c["cfg"], "events": c["evs"], "pg_records": c["pg"]["recs"],
                       "cyg_records": c["cyg"]["recs"], "env": mch.cfg_env(c["cfg"])}, True)
    if R["fin"] and not finm:
        c = fincases[R["fin"][0] // 2]
        ctx.violation("model and libmcount disagree on %d finish-trigger case(s) (records after the run); the two "
                      "instrumentation shapes agree with each other on every explored case" % len(R["fin"]),
                      {"correspondence": "UV.Mcount.Model exec_f / finish_enter vs libmcount (-T f@finish)",
                       "cfg": c["cfg"], "env": mch.cfg_env(c["cfg"]), "events": c["evs"],
                       "pg_records": c["pg"]["recs"], "cyg_records": c["cyg"]["recs"]}, False)
    optm = [j for j, c in enumerate(optcases) if c["pg"]["recs"] != c["cyg"]["recs"]]
    for j in optm[:2]:
        c = optcases[j]
        ctx.violation("C05: with several options on the same functions the recorded trace depends on the instrumentation method",
                      {"mode": "pair", "cfg": c["cfg"], "events": c["evs"], "pg_records": c["pg"]["recs"],
                       "cyg_records": c["cyg"]["recs"], "env": mch.cfg_env(c["cfg"])}, True)
    for j in R["opts"][:2]:
        c = optcases[j // 2]
        sh = ("pg", "cyg")[j % 2]
        # the model computes the trigger table from the option list as documented (later options override, the opt-in
        # mode is on iff an opt-in filter matched): a disagreement is a selection that differs from the documented one
        ctx.violation("C05: the recorded selection differs from the documented meaning of the option list (trigger table / "
                      "filter mode built by utils/filter.c vs Mcount/Table.v)",
                      {"mode": "inproc", "cfg": dict(c["cfg"], shape=sh), "events": c["evs"],
                       "impl_states": c[sh]["states"], "impl_records": c[sh]["recs"],
                       "env": mch.cfg_env(c["cfg"])}, True)
    if R["off"]:
        c = offcases[R["off"][0]]
        ctx.violation("model and libmcount disagree on %d case(s) recorded with --disable (tracing starts switched off)"
                      % len(R["off"]),
                      {"correspondence": "UV.Mcount.Model from init_off vs libmcount with UFTRACE_TRACE_OFF (state after each hook + "
                       "records)", "cfg": c["cfg"], "env": mch.cfg_env(c["cfg"]), "events": c["evs"],
                       "impl_states": c["res"]["states"], "impl_records": c["res"]["recs"]}, False)
    for j in R["method"][:2]:
        p = pairs[j]
        ctx.violation("C05: recorded trace depends on the instrumentation method",
                      {"mode": "pair", "cfg": p["cfg"], "events": p["evs"], "pg_records": p["pg"]["recs"],
                       "cyg_records": p["cyg"]["recs"]}, True)
    if R["mismatch"] and not (R["restore"] or R["nested"] or R["plain"] or R["method"] or R["sel"] or R["sel2"] or R["emb"]):
        c = cases[R["mismatch"][0]]
        ctx.violation("model and libmcount disagree on %d case(s); the C05 checkers accept every explored "
                      "implementation output" % len(R["mismatch"]),
                      {"correspondence": "UV.Mcount.Model vs libmcount hooks (state after each hook + records)",
                       "cfg": c["cfg"], "env": mch.cfg_env(c["cfg"]), "events": c["evs"],
                       "impl_states": c["res"]["states"], "impl_records": c["res"]["recs"]}, False)


def known_leak(ctx):
    """regression witnesses of the repaired defect pg-reject-leak (Restore.v leak_cfg / leak2_cfg) and of its second half
    (a rejected -pg call's time= / size= trigger did not reach its callees)"""
    h = mch.Harness(ctx)
    w1 = ({"trig": {1: {"time": 1000}}, "depth": 1}, [("E", 0, 100), ("E", 1, 110), ("X", 1, 120), ("X", 0, 200)])
    w2 = ({"trig": {1: {"depth": 0}}}, [("E", 0, 100), ("E", 1, 110), ("X", 1, 120), ("E", 2, 130), ("X", 2, 140),
                                        ("X", 0, 200)])
    # main{ b{ c } } with -D 1, b@time=1000, c@depth=1: b is beyond -D; its frame carries the threshold to c (c runs
    # 10 ns: hidden) under either instrumentation method
    w3 = ({"trig": {1: {"time": 1000}, 2: {"depth": 1}}, "depth": 1},
          [("E", 0, 100), ("E", 1, 110), ("E", 2, 120), ("X", 2, 130), ("X", 1, 140), ("X", 0, 200)])
    # main{ b{ c } c } with b@depth=0: b and what it calls are hidden, the later c is shown
    w4 = ({"trig": {1: {"depth": 0}}}, [("E", 0, 100), ("E", 1, 110), ("E", 2, 115), ("X", 2, 118), ("X", 1, 120),
                                        ("E", 2, 130), ("X", 2, 140), ("X", 0, 200)])
    for cfg, evs in (w1, w2, w3, w4):
        r_pg = mcgen.run_case(h, dict(cfg, shape="pg"), evs)
        r_cyg = mcgen.run_case(h, dict(cfg, shape="cyg"), evs)
        ctx.case(key=("fixed-leak", repr(cfg)), tags=["regression:pg-reject-leak"])
        if r_pg["recs"] != r_cyg["recs"] or not r_pg["recs"]:
            ctx.violation("C05: a -pg call rejected after its trigger changed the filter state leaves the change behind, or "
                          "does not apply it to its callees (regression of the repaired defect pg-reject-leak)",
                          {"mode": "leak-witness", "cfg": cfg, "events": evs, "pg_records": r_pg["recs"],
                           "cyg_records": r_cyg["recs"]}, True)


# ---------------------------------------------------------------- end-to-end (-F / -N / -D on real programs)
def e2e(ctx, objdir):
    rng = ctx.rng
    uft = os.path.join(objdir, "uftrace")
    work = os.path.join(ctx.scratch, "e2e")
    os.makedirs(work, exist_ok=True)
    for pi in range(ctx.n(6, 16)):
        fo_main = F.gen_shape(rng, 6, rng.choice([6, 12, 25]), 6)
        # source locations for -L: every function class lies in "file" locA.c or locB.c, main in locmain.c
        locbit = rng.randrange(2)

        def loc_of(k):
            return "AB"[(k + locbit) % 2]
        src, names = c02.c_program(fo_main, [], loc_of=loc_of)
        cfile = os.path.join(work, "q%d.c" % pi)
        open(cfile, "w").write(src)
        method, cflags, rflags = rng.choice(c02.METHODS[:3])
        exe = os.path.join(work, "q%d" % pi)
        rc, o, e = sh(["gcc", "-O1", "-g", "-o", exe, cfile, "-pthread"] + cflags, timeout=120)
        if rc != 0:
            ctx.broken("e2e program does not compile", e[-400:])
            continue
        # options: -F / -N on function classes (suffix _f<k>), -D
        trig = {}
        opts = []
        present = sorted({int(n.rsplit("_f", 1)[1]) for n in names.values() if isinstance(n, str)})
        ks = rng.sample(present, min(len(present), rng.randrange(1, 3)))     # a pattern that matches nothing
                                                                             # does not count as a filter
        # the first programs of every run are directed at -L together with -F/-N: a function that carries a filter
        # and lies OUTSIDE the selected location (its scope must still be opened and closed: mcount_entry_filter_check
        # steps in_count/out_count before it looks at the location)
        in_a0 = [k for k in present if loc_of(k) == "A"]
        forced_lmode = None
        if pi < 3 and in_a0 and len(in_a0) < len(present):
            forced_lmode = ("show", "hide", "show")[pi]
            outk = [k for k in present if (k not in in_a0) == (forced_lmode == "show")]
            callers = [k for k in outk if any(c.k == k and c.kids for c in F.walk(fo_main))] or outk
            k0 = rng.choice(callers)
            ks = [k0] + [k for k in ks if k != k0][:1]
        facts = rng.choice(["none", "all", "mixed"])
        for k in ks:
            inc = rng.random() < 0.6
            trig[k] = {"filter": inc}
            if facts == "all" or (facts == "mixed" and rng.random() < 0.5):
                opts += ["-T", "_f%d$@%s" % (k, "filter" if inc else "notrace")]
            else:
                opts += ["-F" if inc else "-N", "_f%d$" % k]
        # depth= trigger and caller filter on further functions (spelled -T f@depth=N / -C f / -T f@caller)
        others = [k for k in present if k not in trig]
        if others and rng.random() < 0.4:
            k = rng.choice(others)
            trig[k] = {"depth": rng.choice([1, 2, 3])}
            opts += ["-T", "_f%d$@depth=%d" % (k, trig[k]["depth"])]
            others.remove(k)
        if others and rng.random() < 0.3:
            k = rng.choice(others)
            trig[k] = {"caller": True}
            opts += rng.choice([["-C", "_f%d$" % k], ["-T", "_f%d$@caller" % k]])
        # location filter: show only locA.c / hide locA.c (-L locA.c[@hide]); main (locmain.c) is outside every named location
        in_a = [k for k in present if loc_of(k) == "A"]
        lmode = None
        if in_a and (forced_lmode or rng.random() < 0.5):
            lmode = forced_lmode or rng.choice(["show", "hide"])
            for k in in_a:
                trig.setdefault(k, {})["loc"] = (lmode == "show")
            opts += ["-L", "locA.c" + ("@hide" if lmode == "hide" else "")]
        cfg = {"shape": "cyg" if method == "cyg" else "pg", "trig": trig}
        if rng.random() < 0.5:
            cfg["depth"] = rng.choice([1, 2, 3, 4])
            opts += ["-D", str(cfg["depth"])]
        dd = os.path.join(work, "dq%d" % pi)
        rc, o, e = sh(["timeout", "60", uft, "record", "--no-pager", "--no-event", "--no-libcall",
                       "--libmcount-path=" + objdir, "-d", dd] + opts + rflags + [exe], timeout=90)
        if rc != 0:
            ctx.violation("uftrace record failed on a generated program with filter options (rc=%d)" % rc,
                          {"mode": "e2e", "opts": opts, "program": src, "stderr": e[-400:]}, True)
            continue
        streams = c02.decode_dir(dd)
        got = [(r[0], r[1], r[2]) for v in streams.values() for r in v]
        # model prediction: main = function number 31 wrapping the forest; unit durations, no threshold
        root = F.Call(31, 0, 0, fo_main)
        F.assign_times(rng, [root], durs=(3,), self_durs=(3,))
        evs = F.flatten([root])
        name_of = {31: "main"}

        def canon(n):
            if n == "main":
                return 31 * 256
            if "_f" in n:
                return 256 * int(n.rsplit("_f", 1)[1])
            return -1
        got_c = [(t, d, canon(n)) for (t, d, n) in got]
        term = "(%s, %s)" % (F.coq_cfg(cfg, [0] * 32), F.coq_events(evs))
        r = coq.run_cases(ctx, "c05_e2e%d" % pi, mcgen.PRE, "Definition c := %s.\n" % term, [
            ("model", "let '(a, b) := c in map (fun r : rec => (type_code (r_type r), r_depth r, r_addr r)) "
                      "(out (fst (exec a b (init, []))))"),
            ("leaky", "let '(a, b) := c in leaky a b")])
        ctx.case(key=("e2e", method, tuple(opts), src), tags=["e2e:" + method, "e2e:opts=%d" % len(opts),
                                                             "e2e:-L=" + str(lmode)], size=len(evs))
        if r is None:
            continue
        import re
        model = [tuple(int(x) for x in m) for m in re.findall(r"\(\s*(\d+),\s*(\d+),\s*(\d+)\s*\)", r["model"])]
        if model != got_c:
            ctx.violation("C05 (end-to-end, %s %s): recorded calls differ from the model's selection" % (method, " ".join(opts)),
                          {"mode": "e2e", "method": method, "opts": opts, "program": src, "model": model, "got": got_c},
                          True)


def meta(ctx):
    ctx.rule = ("random trigger tables over 6 functions (filter in/out, depth=, time=, size=, trace, trace_on/off, caller) "
                "x -D/-t/--max-stack x {-pg, cygprof} x pattern syntax {simple, regex, glob} x random call forests with "
                "durations around the thresholds (T-1,T,T+1); method pairs (same cfg+forest under both shapes); "
                "distinct = distinct (cfg, events); non-trivial = >=4 events and at least one option")
    ctx.trusted = [
        "Coq 8.16.1 kernel incl. vm_compute; no axioms (Print Assumptions: closed)",
        "model coq/theories/Mcount/Model.v (mcount_entry_filter_check / _record, mcount_exit_filter_record, "
        "record_trace_data, both shapes); executable checkers coq/theories/Mcount/Check.v",
        "mapping option strings -> trigger table: modelled in Mcount/Table.v (option list -> table and counts) for the "
        "option-list cases, vf/mch.py cfg_env spells the options; elsewhere one spec per function (vf/forest.py coq_cfg)",
        "harness/c/mc_harness.c, generated Gen/Consts.v",
    ]
    ctx.assume = [
        "pattern matching itself (regexec/fnmatch) and the option -> trigger-table translation (utils/filter.c) are "
        "exercised by the tie but not modelled; one trigger spec per function",
        "recover, argument capture and events are outside this model; the finish trigger is modelled at the level of the "
        "thread's stream (exec_f: the run stops at the first firing entry; what other threads do after the global flag "
        "is set is not modelled); the location filter -L is in the model and in "
        "the specification sel2 (theorems quantify over it) but its tie is end-to-end only (generated programs whose "
        "functions carry #line source locations; the in-process harness functions have no DWARF)",
        "refinement to the documented semantics is proved for -F/-N/-C/-D/-t and the trigger actions filter/notrace/"
        "depth=(>0)/time=/size=/trace (specifications sel, sel2, both instrumentation shapes); "
        "trace_on/trace_off, finish and depth=0 are tied by correspondence (finish: records only) + the restoration and embedded-sub-history "
        "theorems only",
        "theorems quantify over complete call forests within --max-stack and clock readings < 2^64 that do not go "
        "backwards inside a call; end times are non-zero (libmcount uses 0 for 'still running')",
    ]


def run(ctx):
    meta(ctx)
    coq.prove(ctx, "C05", extra_files=["Mcount/Check", "Mcount/Table"])
    objdir = build.get_build("plain", ctx.log)
    inproc(ctx)
    known_leak(ctx)
    e2e(ctx, objdir)


def replay(ctx, obj):
    meta(ctx)
    coq.prove(ctx, "C05", extra_files=["Mcount/Check", "Mcount/Table"])
    if "events" not in obj or "cfg" not in obj:
        return run(ctx)
    h = mch.Harness(ctx)
    cfg = obj["cfg"]
    cfg["trig"] = {int(k): v for k, v in cfg.get("trig", {}).items()}
    evs = [tuple(e) for e in obj["events"]]
    res = mcgen.run_case(h, cfg, evs)
    ctx.case(key="replay", sample={"cfg": cfg, "events": evs[:20], "records": res["recs"][:20]})
    defs = "Definition c : case4 := %s.\n" % mcgen.case_term(cfg, evs, res)
    r = coq.run_cases(ctx, "c05_replay", mcgen.PRE, defs, [
        ("agree", "agree4 c"),
        ("restore", "let '(a, b, o, _) := c in ok_restore b o"),
        ("nested", "let '(a, b, _, r) := c in ok_nested r"),
        ("model_states", "let '(a, b, _, _) := c in fst (trace a b (init, []))")])
    ctx.log("replay:", {k: v for k, v in (r or {}).items() if k != "model_states"}, "impl records:", res["recs"][:10])
    if r and r["restore"] != "true":
        ctx.violation("C05: filter state not restored (replay)", obj, True)
    elif r and r["agree"] != "true":
        ctx.violation("model and libmcount disagree (replay)", obj, False)
