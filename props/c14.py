"""C14 - Dynamic patching instruments exactly the selected functions, safely.

Theorems: coq/theories/Properties_C14.v (model coq/theories/C14/Model.v of libmcount/dynamic.c and
arch/x86_64/mcount-dynamic.c for the patchable-entry / fentry-NOP methods).

Tie (every run, against the object code / sources of /repo's CURRENT tree):
  1. pattern cases   : the real parse_pattern_list + match_pattern_list (+ the real
                       match_filter_pattern per item as the regex/fnmatch oracle) on generated -P/-U
                       strings, modules, library names, sonames and symbol names;
  2. update cases    : the real mcount_setup_trampoline, patch_func_matched (-> mcount_patch_func ->
                       patch_fentry_code, mcount_unpatch_func), mcount_save_code,
                       mcount_cleanup_trampoline, mcount_freeze_code on a fake module living in an
                       anonymous region filled with generated prologues; window bytes, statistics,
                       trampoline and page permissions (from /proc/self/maps) before/after;
  3. end-to-end      : generated programs built with -fpatchable-function-entry=5 (gcc, gcc with
                       endbr64, clang) and -pg -mfentry -mnop-mcount, run natively and under the real
                       `uftrace record -P.. -U.. [-Z n]`; the tracee dumps its own code bytes,
                       its __patchable_function_entries and /proc/self/maps; traced names from
                       `uftrace report`.
All three are compared with the model and judged by the executable property checkers inside Coq.
"""
import os
import re
import subprocess

from vf import build, coq
from vf.core import REPO, sh

HARNESS_SRC = os.path.join(os.path.dirname(__file__), "../harness/c/c14_harness.c")
KNOWN_KEY = "trampoline-page-occupied"

PT = {1: "PSimple", 2: "PRegex", 3: "PGlob"}
PERM = {"u": "Unmapped", "n": "P_NONE", "r": "P_R", "w": "P_RW", "x": "P_RX", "a": "P_RWX", "?": "P_NONE"}


# ---------------------------------------------------------------- Coq literals
def cb(s):
    if isinstance(s, str):
        s = s.encode()
    return "[" + ";".join("%d" % b for b in s) + "]"


def cz(n):
    return "(%d)%%Z" % n


def cbool(b):
    return "true" if b else "false"


def copt_bytes(s):
    return "None" if s is None else "(Some %s)" % cb(s)


def cperms(s):
    return "[" + ";".join(PERM[c] for c in s) + "]" if s and s != "-" else "[]"


def hx(s):
    if isinstance(s, str):
        s = s.encode()
    return s.hex() if s else "-"


def unhx(s):
    return b"" if s == "-" else bytes.fromhex(s)


# ---------------------------------------------------------------- harness driver
class Harness:
    def __init__(self, ctx, objdir):
        self.ctx = ctx
        self.objdir = objdir
        self.exe = os.path.join(ctx.scratch, "c14_harness")
        objs = [o for o in build.libmcount_objs(objdir) if not o.endswith("/libmcount/dynamic.op")]
        build.cc([HARNESS_SRC] + objs, self.exe, objdir, extra=build.LINK_LIBS + ["-DLIBMCOUNT"])
        self.udir = os.path.join(ctx.scratch, "udir")
        os.makedirs(self.udir, exist_ok=True)

    def run(self, lines, timeout=300):
        env = {k: v for k, v in os.environ.items() if not k.startswith("UFTRACE_")}
        env["UFTRACE_DIR"] = self.udir
        p = subprocess.run([self.exe], input="\n".join(lines) + "\nQUIT\n", env=env, capture_output=True,
                           text=True, timeout=timeout)
        if p.returncode != 0:
            raise RuntimeError("c14 harness failed rc=%s stderr=%s" % (p.returncode, p.stderr[-800:]))
        return p.stdout.splitlines()


# ---------------------------------------------------------------- pattern cases
NAMES = ["a", "ab", "abc", "b", "ba", "bar", "foo", "foo_bar", "main", "f1", "f10", "_start", "x.y",
         "operator new", "A", "<1f0>", "__libc_csu_init", "aab", "zz"]
PATS = {
    1: NAMES,
    2: ["^a", "a.*", "b$", "(a|b)c", "[ab]+", "a{2}", "a(", "*a", "operator new", "operator .*", "a+", ".",
        "^foo_", "^(a", "x\\.y", "f1$|^b", "[", "^<", "main", "foo", "ab", "^$", "a|zz"],
    3: ["a*", "?b", "*", "[ab]*", "a\\*", "*_bar", "f1?", "**", "?", "[!a]*", "a[", "x.y", "<*>", "main",
        "foo", "*a*b*", "a?*", "???"],
}
MODS = ["", "main", "ma", "mainx", "lib", "libfoo.so", "other", "libfoo.so.1", "m", "libc14so", "libc14so.so.7",
        "libc14file", "libc14file.so.7.1.x"]
REALLIB = "@REALLIB@"       # replaced by the path of a real shared object (file libc14file.so.7.1, soname libc14so.so.7)
MODPATHS = ["/usr/bin/main", "main", "/x/libfoo.so.1.2", "/nonexistent/other", REALLIB, REALLIB, "lib", "/x/mainx",
            "/x/prog_plugin.so"]
LIBS = ["/usr/bin/main", "main", "/x/libfoo.so.1.2", "dir/", "/a/b/other", "ma", "/main/x", "/x/mainx", "/x/main_plugin.so",
        "/x/prog_plugin.so", "/x/prog"]
SONAMES = [None, None, "libfoo.so.1", "main", "", "mainly", "prog"]


def gen_opts(rng, ptype, n, names=None, mods=MODS, pmod=0.35):
    """list of ('P'|'U', arg) as given on the command line"""
    opts = []
    for _ in range(n):
        pool = PATS[ptype]
        if names and rng.random() < 0.6:
            pat = rng.choice(names) if ptype == 1 or rng.random() < 0.4 else rng.choice(pool)
        else:
            pat = rng.choice(pool)
        if rng.random() < pmod:
            pat += "@" + rng.choice(mods)
        opts.append((rng.choice("PPU"), pat))
    return opts


def render(opts):
    return ";".join(a if k == "P" else "!" + a for k, a in opts)


def gen_pattern_case(rng, i):
    ptype = rng.choice([1, 2, 2, 3, 3])
    n = rng.choice([0, 1, 1, 2, 2, 3, 4, 6])
    cli = None
    r = rng.random()
    if r < 0.7:
        opts = gen_opts(rng, ptype, n)
        funcs = render(opts)
        if n >= 1:
            cli = opts
        tags = ["cli", "nitems=%d" % n]
    else:
        # raw strings the option parser would not produce: empty items, stray '!', several '@'
        parts = [rng.choice(["", "!", "!!a", "a@", "@m", "a@b@c", "!@", "a", "!b@main", ";", "!a.*", "*@"])
                 for _ in range(rng.randrange(0, 4))]
        funcs = ";".join(parts)
        tags = ["raw"]
    defmod = rng.choice(["main", "main", "", "libfoo.so.1.2", "prog"])
    qs = []
    for _ in range(rng.randrange(3, 8)):
        qs.append((rng.choice(LIBS), rng.choice(SONAMES), rng.choice(NAMES)))
    mods = [rng.choice(MODPATHS) for _ in range(rng.randrange(1, 4))]
    return {"kind": "pat", "ptype": ptype, "funcs": funcs, "defmod": defmod, "cli": cli, "queries": qs, "tags": tags,
            "modpaths": mods}


def pat_lines(c):
    ls = ["PAT %d %s %s" % (c["ptype"], hx(c["funcs"]), hx(c["defmod"]))]
    for lib, so, name in c["queries"]:
        ls.append("Q %s %s %s" % (hx(lib), "-" if so is None else (hx(so) if so else "00"), hx(name)))
    for path in c.get("modpaths", []):
        ls.append("MOD %s" % hx(path.replace(REALLIB, REALLIB_PATH[0])))
    return ls


REALLIB_PATH = ["/nonexistent-c14/libc14file.so.7.1"]


def build_reallib(ctx):
    """a real shared object whose file name and DT_SONAME differ (get_soname reads the file)"""
    d = os.path.join(ctx.scratch, "elfs")
    os.makedirs(d, exist_ok=True)
    src = os.path.join(d, "l.c")
    open(src, "w").write("int c14_lib_fn(int x) { return x + 1; }\n")
    lib = os.path.join(d, "libc14file.so.7.1")
    sh(["gcc", "-shared", "-fPIC", "-Wl,-soname,libc14so.so.7", "-o", lib, src], check=True)
    REALLIB_PATH[0] = lib


class Out:
    def __init__(self, lines):
        self.l = lines
        self.i = 0

    def next(self):
        if self.i >= len(self.l):
            raise RuntimeError("c14 harness output ended early")
        self.i += 1
        return self.l[self.i - 1]

    def peek(self):
        return self.l[self.i] if self.i < len(self.l) else None


def read_pat(out, c):
    k = out.next().split()
    if k[0] != "P":
        raise RuntimeError("unexpected harness line %r" % k)
    items = []
    for _ in range(int(k[1])):
        t = out.next().split()
        items.append({"type": int(t[1]), "pos": int(t[2]), "patt": unhx(t[3]), "mod": unhx(t[4]),
                      "exact": int(t[5]) if len(t) > 5 else 0})
    c["items"] = items
    res = []
    for _ in c["queries"]:
        t = out.next().split()
        bits = [] if t[2] == "-" else [ch == "1" for ch in t[2]]
        res.append((int(t[1]), bits))
    c["qres"] = res
    mres = []
    for path in c.get("modpaths", []):
        t = out.next().split()
        if t[0] != "MO":
            raise RuntimeError("unexpected harness line %r" % t)
        mres.append((path.replace(REALLIB, REALLIB_PATH[0]), None if t[2] == "-" else unhx(t[2]), t[1] == "1"))
    c["mres"] = mres


def oracle_tables(c):
    """regcomp table and (pattern, name) -> matched table from the implementation's own answers"""
    regok, tbl, seen = [], [], set()
    for it in c["items"]:
        if c["ptype"] == 2 and (b"r", it["patt"]) not in seen:
            seen.add((b"r", it["patt"]))
            regok.append((it["patt"], it["type"] == 2))
    for (lib, so, name), (ret, bits) in zip(c["queries"], c["qres"]):
        for it, b in zip(c["items"], bits):
            if it["type"] in (2, 3):
                key = (it["patt"], name)
                if key not in seen:
                    seen.add(key)
                    tbl.append((it["patt"], name.encode() if isinstance(name, str) else name, b))
    return regok, tbl


def c_item(it):
    return "{| pi_patt := {| pt_type := %s; pt_str := %s |}; pi_mod := %s; pi_pos := %s; pi_exact := %s |}" % (
        PT.get(it["type"], "PSimple"), cb(it["patt"]), cb(it["mod"]), cbool(it["pos"]), cbool(it.get("exact", 0)))


def c_tables(regok, tbl):
    return ("[" + ";".join("(%s,%s)" % (cb(p), cbool(b)) for p, b in regok) + "]",
            "[" + ";".join("(%s,%s,%s)" % (cb(p), cb(n), cbool(b)) for p, n, b in tbl) + "]")


def so_bytes(so):
    return None if so is None else so.encode()


def c_pcase(c):
    regok, tbl = oracle_tables(c)
    r, t = c_tables(regok, tbl)
    cli = "None"
    if c["cli"] is not None:
        cli = "(Some [%s])" % ";".join("%s %s" % ("OptP" if k == "P" else "OptU", cb(a)) for k, a in c["cli"])
    qs = []
    for (lib, so, name), (ret, bits) in zip(c["queries"], c["qres"]):
        qs.append("{| q_lib := %s; q_so := %s; q_name := %s; q_ret := %s; q_bits := [%s] |}" % (
            cb(lib), copt_bytes(so_bytes(so)), cb(name), cz(ret), ";".join(cbool(b) for b in bits)))
    ms = ["(%s, %s, %s)" % (cb(pth), copt_bytes(so), cbool(r_)) for pth, so, r_ in c.get("mres", [])]
    return ("{| p_ptype := %s; p_funcs := %s; p_defmod := %s; p_cli := %s; p_regok := %s; p_tbl := %s;\n"
            "   p_items := [%s];\n   p_queries := [%s];\n   p_mods := [%s] |}" % (
                PT[c["ptype"]], cb(c["funcs"]), cb(c["defmod"]), cli, r, t,
                ";".join(c_item(i) for i in c["items"]), ";\n     ".join(qs), "; ".join(ms)))


# ---------------------------------------------------------------- update cases
ENDBR = bytes([0xf3, 0x0f, 0x1e, 0xfa])
PROLOGUES = {
    "gcc": bytes([0x90] * 5),
    "clang": bytes([0x0f, 0x1f, 0x44, 0x00, 0x08]),
    "fe1": bytes([0x67, 0x0f, 0x1f, 0x04, 0x00]),
    "fe2": bytes([0x0f, 0x1f, 0x44, 0x00, 0x00]),
    "push": bytes([0x55, 0x48, 0x89, 0xe5, 0x5d]),
    "nop4": bytes([0x90, 0x90, 0x90, 0x90, 0xc3]),
    "near": bytes([0x0f, 0x1f, 0x44, 0x00, 0x01]),
    "call": bytes([0xe8, 0x10, 0x00, 0x00, 0x00]),
    "ff15": bytes([0xff, 0x15, 0x10, 0x00, 0x00, 0x00]),
    "ff25": bytes([0xff, 0x25, 0x10, 0x00, 0x00, 0x00]),
    "endbr-half": bytes([0xf3, 0x0f, 0x1e, 0xfb, 0x90]),
}
PG = 4096
UNAMES = ["alpha", "alpine", "beta", "bet", "gamma", "main", "foo", "foo_bar", "f1", "f10", "_start", "a", "ab",
          "__libc_csu_init", "x.y", "zeta"]


def gen_update_case(rng, i, witness=None):
    ty = rng.choice([5, 5, 5, 5, 5, 3, 3, 3, 2, 1, 0])
    minsz = rng.choice([0, 0, 0, 1, 6, 7, 9, 10, 16, 17, 100, 4294967295])
    tags = ["ty=%d" % ty]
    if witness is None and rng.random() < 0.15:
        minsz = rng.choice([0, 5, 6, 7, 9, 10])
    # ---- text layout
    npages = 4
    first = rng.choice([0, 1])                      # first text page
    text_addr = first * PG + rng.choice([0, 0, 32, 64])
    span = rng.choice([1, 1, 2])                     # pages the text touches
    P = (first + span) * PG                          # page boundary behind the text
    endkind = rng.choice(["mid", "mid", "4080", "4081", "4095", "aligned", "low"]) if witness is None else witness
    tend = {"mid": P - rng.randrange(17, 3000), "4080": P - 16, "4081": P - 15, "4095": P - 1,
            "aligned": P, "low": P - PG + 1 + rng.randrange(0, 8),
            "occupied": P - rng.choice([0, 1, 15])}[endkind]
    if tend <= text_addr + 40:
        tend = text_addr + 41
    adds = (tend + PG - 1) // PG * PG - 16 < tend
    tags.append("textend=" + endkind)
    perms = []
    for pg in range(npages):
        if first <= pg < first + span and pg * PG < tend:
            perms.append("x")
        elif pg < first:
            perms.append("r")
        else:
            perms.append(rng.choice("rwu"))
    endpage = (tend - 1) // PG
    if adds:
        addpg = (tend + PG - 1) // PG
        tags.append("adds-page")
        if addpg >= npages:
            npages += 1
            perms.append("u")
        perms[addpg] = "r" if endkind == "occupied" else "u"
        tramp = addpg * PG
    else:
        tramp = (tend + PG - 1) // PG * PG - 16
    # ---- functions
    tight = witness is None and rng.random() < 0.3     # adjacent functions exactly as long as a visit looks
    stripped = (not tight) and ty == 5 and rng.random() < 0.12     # no symbol at all: every location is a nameless site
    if stripped:
        tags.append("stripped")
    nf = rng.choice([1, 2, 3, 3, 4, 5, 6])
    names = rng.sample(UNAMES, nf)
    funcs = []
    data = bytearray()
    if tight:
        tags.append("tight-layout")
    for k in range(nf):
        if tight:
            kind = rng.choice(["gcc", "gcc", "clang", "fe1", "fe2", "call", "ff15", "push", "ret"])
            endbr = kind not in ("call", "ff15", "ret") and rng.random() < 0.4
            body = (ENDBR if endbr else b"") + (b"\xc3" if kind == "ret" else PROLOGUES[kind])
            if kind == "ret":
                size = rng.choice([1, 2, 4])
            elif kind in ("call", "ff15"):
                size = 6
            else:
                size = (9 if endbr else 6) + rng.choice([0, 0, 1])
            code = bytearray(body)
            while len(code) < size:
                code.append(0xc3)
            code = code[:max(size, len(body))] if kind != "ret" else code[:size]
            spacing = len(code)
            size = spacing
            funcs.append({"off": len(data), "size": size, "name": names[k], "named": True, "kind": kind,
                          "endbr": endbr, "stype": rng.choice([84, 84, 116, 119])})
            data += code
            tags.append("pro=%s%s" % ("endbr+" if endbr else "", kind))
            continue
        kind = rng.choice(["gcc", "gcc", "gcc", "clang", "fe1", "fe2", "push", "nop4", "near", "call", "ff15",
                           "ff25", "endbr-half"])
        endbr = rng.random() < 0.35
        body = (ENDBR if endbr else b"") + PROLOGUES[kind]
        size = rng.choice([1, 5, 6, 6, 7, 8, 9, 10, 12, 16, 24, 40, max(minsz, 1) - 1, minsz, minsz + 1])
        size = max(1, min(size, 4294967295))
        room = max(len(body) + 1, 10) if rng.random() < 0.8 else len(body)
        spacing = max(min(size, 48), room) + rng.choice([0, 0, 1, 3, 6])
        if size > spacing and not (k == nf - 1 and rng.random() < 0.5):
            size = spacing
        code = bytearray(body)
        while len(code) < spacing:
            code.append(rng.choice([0xc3, 0x55, 0x90, 0x48, 0x89, 0xcc, 0x00, 0xe8]))
        named = rng.random() < 0.85 and not stripped
        pre = 0
        if ty == 5 and kind == "gcc" and not endbr and rng.random() < 0.3:
            # -fpatchable-function-entry=N,M: M NOPs (and the recorded location) in front of the entry;
            # either 5 NOPs remain at the entry (N = 5+M) or only 5-M (N = 5)
            pre = rng.choice([1, 2, 3, 4])
            if rng.random() < 0.5:
                code[0:5] = bytes([0x90] * (5 - pre)) + bytes(rng.choice([0x55, 0x8d, 0x48]) for _ in range(pre))
                tags.append("pre-entry-N=5")
            else:
                tags.append("pre-entry-N=5+M")
            data += bytes([0x90] * pre)
        funcs.append({"off": len(data), "size": size, "name": names[k], "named": named, "kind": kind, "endbr": endbr,
                      "stype": rng.choice([84, 84, 84, 116, 116, 119, 80, 100, 63]), "pre": pre})
        data += code
        tags.append("pro=%s%s" % ("endbr+" if endbr else "", kind))
        if size < 6:
            tags.append("size<6")
        elif 6 <= size < 9 and endbr:
            tags.append("endbr-size6..8")
    data += bytes([0xcc] * 12)
    # ---- window position: inside the writable text pages, not over the trampoline
    lo = text_addr
    hi = min(tend, tramp) if not adds else tend
    hi = max(hi, lo + len(data))
    place = rng.choice(["start", "end", "cross", "mid"])
    wbase = lo
    if place == "end":
        wbase = max(lo, min(tramp, (endpage + 1) * PG) - len(data))
    elif place == "cross" and span == 2:
        wbase = max(lo, (first + 1) * PG - len(data) // 2)
    elif place == "mid":
        wbase = lo + rng.randrange(0, max(1, min(tramp, (endpage + 1) * PG) - len(data) - lo))
    if wbase + len(data) > min(tramp, (endpage + 1) * PG) and not adds:
        wbase = max(lo, tramp - len(data))
    if adds and wbase + len(data) > (endpage + 1) * PG:
        wbase = max(lo, (endpage + 1) * PG - len(data))
    tags.append("win=" + place)
    # rel32 = 0: a function whose entry + 5 is the trampoline; the window ends there
    if not adds and rng.random() < 0.08 and tramp - 5 - len(data) + 12 > lo:
        f = {"off": len(data) - 12, "size": 6, "name": "edge", "named": True, "kind": "gcc", "endbr": False, "stype": 84}
        data = data[:-12] + bytes([0x90] * 5)
        wbase = tramp - len(data)
        funcs.append(f)
        tags.append("rel32=0")
    syms, targets = [], []
    for f in funcs:
        a = wbase + f["off"]
        if f["named"]:
            syms.append((a, f["size"], f["stype"], f["name"]))
        if ty == 5 and tight:
            targets.append(a)
        elif ty == 5 and f.get("pre"):
            targets.append(a - f["pre"])
        elif ty == 5:
            r = rng.random()
            if r < 0.85:
                targets.append(a)
            elif r < 0.92 and f["size"] > 2:
                targets.append(a + 1)
                tags.append("target-mid-symbol")
            if rng.random() < 0.07:
                targets.append(a)
                tags.append("target-dup")
            if not f["named"]:
                tags.append("fake-sym")
    if ty == 5 and rng.random() < 0.15 and not tight:
        rng.shuffle(targets)
    ptype = rng.choice([1, 2, 2, 3])
    present = [f["name"] for f in funcs]
    opts = gen_opts(rng, ptype, rng.choice([1, 1, 2, 3, 4]), names=present, mods=["main", "ma", "", "other", "mainx"],
                    pmod=0.25)
    if stripped and ptype == 1:
        ptype = rng.choice([2, 3])
        opts = gen_opts(rng, ptype, rng.choice([1, 2]), names=present, mods=["main", ""], pmod=0.2)
    if rng.random() < 0.5 or stripped:
        opts.insert(0, ("P", {1: rng.choice(present), 2: ".", 3: "*"}[ptype]))
    ncode = rng.choice([0, 0, 0, 0, 1, 3])
    return {"kind": "upd", "ty": ty, "min": minsz, "npages": npages, "perms": "".join(perms), "text_addr": text_addr,
            "text_size": tend - text_addr, "wbase": wbase, "before": bytes(data), "lib": "/nonexistent-c14/main",
            "syms": syms, "targets": targets, "ncode": ncode, "codesz": 64, "ptype": ptype, "funcs": render(opts),
            "defmod": "main", "tags": tags, "fatal_expected": endkind == "occupied", "opts": opts}


def fake_name(a):
    return "<%x>" % a


def upd_lines(c):
    names = [s[3] for s in c["syms"]]
    for a in c["targets"]:
        if not any(s[0] <= a < s[0] + s[1] for s in c["syms"]):
            names.append(fake_name(a))
    c["queries"] = [(c["lib"], None, n) for n in dict.fromkeys(names)]
    ls = pat_lines(c)
    sy = " ".join("%d %d %d %s" % (a, sz, t, hx(n)) for a, sz, t, n in c["syms"])
    tg = " ".join("%d" % a for a in c["targets"])
    ls.append("UPD %d %d %d %s %d %d %d %s %s %d %s %d %s %d %d" % (
        c["ty"], c["min"], c["npages"], c["perms"], c["text_addr"], c["text_size"], c["wbase"], c["before"].hex(),
        hx(c["lib"]), len(c["syms"]), sy, len(c["targets"]), tg, c["ncode"], c["codesz"]))
    return ls


def read_upd(out, c):
    read_pat(out, c)
    r = {"fatal": False, "rc": 0, "tramp": 0, "tsize": 0, "perm0": "", "perm1": "", "perm2": "", "after": b"",
         "stats": (0, 0, 0, 0), "thead": b"", "tdelta": 0, "canary": 0, "ncp": 0, "cpb": "", "cpa": ""}
    while True:
        l = out.next()
        k = l.split()
        if k[0] == "END":
            break
        if k[0] == "FATAL":
            r["fatal"] = True
            r["fatal_status"] = int(k[1])
            break
        if k[0] == "ERR":
            raise RuntimeError("c14 harness: " + l)
        if k[0] == "M0":
            r["perm0"] = k[1]
        elif k[0] == "M1":
            r["perm1"] = k[1]
        elif k[0] == "M2":
            r["perm2"] = k[1]
        elif k[0] == "S":
            r["rc"], r["tramp"], r["tsize"] = int(k[1]), int(k[2]), int(k[3])
        elif k[0] == "T":
            r["thead"], r["tdelta"] = unhx(k[1]), int(k[2])
        elif k[0] == "ST":
            r["stats"] = tuple(int(x) for x in k[1:5])
        elif k[0] == "W":
            r["after"] = b"" if k[1] == "unreadable" else unhx(k[1])
        elif k[0] == "C":
            r["canary"] = int(k[1])
        elif k[0] == "CP":
            r["ncp"], r["cpb"], r["cpa"] = int(k[1]), k[2], k[3]
        # anything else (diagnostics of pr_err on stdout) is ignored
    c["impl"] = r


def c_sym(s):
    return "{| s_addr := %d; s_size := %d; s_type := %d; s_name := %s |}" % (s[0], s[1], s[2], cb(s[3]))


def c_ucase(c):
    regok, tbl = oracle_tables(c)
    r, t = c_tables(regok, tbl)
    i = c["impl"]
    return ("{| u_ptype := %s; u_funcs := %s; u_defmod := %s; u_regok := %s; u_tbl := %s;\n"
            "   u_ty := %d; u_min := %d; u_lib := %s; u_text_addr := %s; u_text_size := %s; u_perms := %s;\n"
            "   u_wbase := %d; u_before := %s;\n   u_syms := [%s]; u_targets := [%s]; u_ncode := %d%%nat; u_codesz := %s;\n"
            "   i_fatal := %s; i_rc := %s; i_tramp := %s; i_tsize := %s; i_perm1 := %s; i_perm2 := %s;\n"
            "   i_after := %s; i_stats := {| st_total := %d; st_failed := %d; st_skipped := %d; st_nomatch := %d |};\n"
            "   i_thead := %s; i_tdelta := %s; i_canary := %d; i_ncp := %d%%nat; i_cp_before := %s; i_cp_after := %s |}" % (
                PT[c["ptype"]], cb(c["funcs"]), cb(c["defmod"]), r, t,
                c["ty"], c["min"], cb(c["lib"]), cz(c["text_addr"]), cz(c["text_size"]), cperms(c["perms"]),
                c["wbase"], cb(c["before"]), ";".join(c_sym(s) for s in c["syms"]),
                ";".join("%d" % a for a in c["targets"]), c["ncode"], cz(c["codesz"]),
                cbool(i["fatal"]), cz(i["rc"]), cz(i["tramp"]), cz(i["tsize"]), cperms(i["perm1"]), cperms(i["perm2"]),
                cb(i["after"]), i["stats"][0], i["stats"][1], i["stats"][2], i["stats"][3],
                cb(i["thead"]), cz(i["tdelta"]), i["canary"], i["ncp"], cperms(i["cpb"]), cperms(i["cpa"])))


# ---------------------------------------------------------------- module-type detection cases
ELF_KINDS = {"plain": [], "pg": ["-pg"], "fentry": ["-pg", "-mfentry"]}


def build_elfs(ctx):
    """three real ELF files without patchable/xray sections: no profiling calls, mcount, __fentry__"""
    d = os.path.join(ctx.scratch, "elfs")
    os.makedirs(d, exist_ok=True)
    src = os.path.join(d, "t.c")
    open(src, "w").write("int f(int x) { return x + 1; }\nint main(void) { return f(1) - 2; }\n")
    out = {}
    for k, fl in ELF_KINDS.items():
        exe = os.path.join(d, "elf-" + k)
        sh(["gcc", "-O1"] + fl + ["-o", exe, src], check=True)
        out[k] = exe
    return out


def gen_find_case(rng, i, elfs):
    u = gen_update_case(rng, i)
    kind = rng.choice(["plain", "plain", "plain", "pg", "fentry"])
    # make the first ordinary function decisive more often: an endbr64 + NOP function alone, or none at all
    return {"kind": "find", "elf": kind, "path": elfs[kind], "wbase": u["wbase"], "window": u["before"],
            "syms": u["syms"], "tags": ["elf=" + kind] + [t for t in u["tags"] if t.startswith("pro=")]}


def find_lines(c):
    sy = " ".join("%d %d %d %s" % (a, sz, t, hx(n)) for a, sz, t, n in c["syms"])
    return ["FIND %s %d %s %d %s" % (hx(c["path"]), c["wbase"], c["window"].hex(), len(c["syms"]), sy)]


def read_find(out, c):
    k = out.next().split()
    if k[0] != "FT":
        raise RuntimeError("c14 harness (FIND): unexpected line %r" % k)
    c["itype"], c["chk"] = int(k[1]), int(k[2])


def c_fcase(c):
    return "{| f_chk := %s; f_wbase := %d; f_window := %s; f_syms := [%s]; i_type := %d |}" % (
        cz(c["chk"]), c["wbase"], cb(c["window"]), ";".join(c_sym(s) for s in c["syms"]), c["itype"])


def find_json(c):
    return {"elf": c["elf"], "wbase": c["wbase"], "window": c["window"].hex(), "syms": [list(s) for s in c["syms"]],
            "implementation": {"type": c.get("itype"), "check_trace_functions": c.get("chk")}}


# ---------------------------------------------------------------- reading the patchable section (load bias)
RPL_LINKS = {
    "gnu-pie": ["-pie"],
    "gnu-exec": ["-fno-pie", "-no-pie"],
    "lld-pie": ["-fuse-ld=lld", "-pie"],
    "lld-pie-base200000": ["-fuse-ld=lld", "-pie", "-Wl,--image-base=0x200000"],
    "lld-pie-base7000000": ["-fuse-ld=lld", "-pie", "-Wl,--image-base=0x7000000"],
    "lld-exec": ["-fuse-ld=lld", "-fno-pie", "-no-pie"],
}


def build_rpl_elfs(ctx, rng):
    """real ELF files with a __patchable_function_entries section, linked by GNU ld and lld, PIE and not, with
    zero and non-zero first-segment p_vaddr: (kind, path, dyn, sh_addr, nentries, first_vaddr)"""
    d = os.path.join(ctx.scratch, "rpl")
    os.makedirs(d, exist_ok=True)
    out = []
    for kind, fl in RPL_LINKS.items():
        k = rng.randrange(1, 6)
        src = os.path.join(d, kind + ".c")
        open(src, "w").write("".join("__attribute__((noinline)) int f%d(int x) { return x * %d + 1; }\n" % (i, i + 2)
                                     for i in range(k)) +
                             "int main(void) { int s = 0; %s return s & 1; }\n" % " ".join("s += f%d(s);" % i for i in range(k)))
        exe = os.path.join(d, "rpl-" + kind)
        rc, o, e = sh(["gcc", "-O1", "-fpatchable-function-entry=5"] + fl + ["-o", exe, src], timeout=120)
        if rc != 0:
            ctx.log("rpl: cannot link %s (%s); skipped" % (kind, e.strip()[-80:]))
            continue
        rc, o, e = sh(["readelf", "-hSlW", exe], check=True)
        dyn = "DYN" in re.search(r"Type:\s+(\S+)", o).group(1)
        m = re.search(r"__patchable_\S*\s+PROGBITS\s+([0-9a-f]+)\s+[0-9a-f]+\s+([0-9a-f]+)", o)
        first = re.search(r"\n\s+LOAD\s+0x[0-9a-f]+\s+0x([0-9a-f]+)", o)
        if not m or not first:
            ctx.log("rpl: no patchable section in %s; skipped" % kind)
            continue
        out.append((kind, exe, dyn, int(m.group(1), 16), int(m.group(2), 16) // 8, int(first.group(1), 16)))
    return out


def gen_rpl_case(rng, elf):
    kind, path, dyn, sh_addr, n, first = elf
    locs = sorted(first + rng.randrange(0x1000, 0x3000) for _ in range(n))
    return {"kind": "rpl", "elf": kind, "path": path, "dyn": dyn, "sh_addr": sh_addr, "first_vaddr": first, "locs": locs,
            "tags": ["link=" + kind, "first_vaddr=0" if first == 0 else "first_vaddr!=0", "ET_DYN" if dyn else "ET_EXEC"]}


def rpl_lines(c):
    return ["RPL %s %d %d %d %d %s" % (hx(c["path"]), 1 if c["dyn"] else 0, c["sh_addr"], c["first_vaddr"], len(c["locs"]),
                                       " ".join("%d" % l for l in c["locs"]))]


def read_rpl(out, c):
    k = out.next().split()
    c["fatal"], c["rtype"], c["targets"] = False, 0, []
    if k[0] == "FATAL":
        c["fatal"] = True
        return
    if k[0] == "ERR":
        raise RuntimeError("c14 harness (RPL): " + " ".join(k))
    if k[0] != "RP":
        raise RuntimeError("c14 harness (RPL): unexpected line %r" % k)
    c["rtype"], c["targets"] = int(k[1]), [int(x) for x in k[3:]]


def c_rcase(c):
    return ("{| r_dyn := %s; r_sh_addr := %s; r_first_vaddr := %s; r_locs := [%s]; i_fatal_r := %s; i_rtype := %d; "
            "i_targets := [%s] |}" % (cbool(c["dyn"]), cz(c["sh_addr"]), cz(c["first_vaddr"]),
                                      ";".join(cz(l) for l in c["locs"]), cbool(c["fatal"]), c["rtype"],
                                      ";".join(cz(t) for t in c["targets"])))


def rpl_json(c):
    return {"link": c["elf"], "ET_DYN": c["dyn"], "sh_addr": c["sh_addr"], "first_vaddr": c["first_vaddr"],
            "locations": c["locs"], "implementation": {"died": c.get("fatal"), "type": c.get("rtype"),
                                                       "targets": c.get("targets")}}


PRE = """From Coq Require Import NArith ZArith List Bool.
Import ListNotations.
Require Import UV.C14.Model.
Local Open Scope N_scope.
"""


def evaluate(ctx, pcases, ucases, name="cases", fixed=False, fcases=(), rcases=()):
    defs = "Definition rcases : list rcase := [\n%s\n].\n" % ";\n".join(c_rcase(c) for c in rcases)
    defs += "Definition fcases : list fcase := [\n%s\n].\n" % ";\n".join(c_fcase(c) for c in fcases)
    defs += "Definition pcases : list pcase := [\n%s\n].\n" % ";\n".join(c_pcase(c) for c in pcases)
    defs += "Definition ucases : list ucase := [\n%s\n].\n" % ";\n".join(c_ucase(c) for c in ucases)
    res = coq.run_cases(ctx, name, PRE, defs, [
        ("p_mismatch", "bad_indices p_agrees pcases 0"),
        ("p_violations", "bad_indices p_ok pcases 0"),
        ("u_mismatch", "bad_indices (u_agrees %s) ucases 0" % cbool(fixed)),
        ("u_violations", "bad_indices u_ok ucases 0"),
        ("u_in_layout", "bad_indices (fun u => negb (u_layout u)) ucases 0"),
        ("f_mismatch", "bad_indices (f_agrees true) fcases 0"),
        ("f_violations", "bad_indices f_ok fcases 0"),
        ("r_mismatch", "bad_indices (r_agrees true) rcases 0"),
        ("r_violations", "bad_indices r_ok rcases 0"),
    ])
    if res is None:
        return None
    return {k: coq.parse_nat_list(v) for k, v in res.items()}


def case_json(c):
    j = {k: v for k, v in c.items() if k not in ("before", "impl", "items", "qres", "mres", "tags", "queries", "opts", "cli")}
    if "before" in c:
        j["before"] = c["before"].hex()
    if c.get("cli") is not None:
        j["cli"] = [list(o) for o in c["cli"]]
    j["queries"] = [[l, s, n] for l, s, n in c.get("queries", [])]
    return j


def impl_json(c):
    out = {}
    if "items" in c:
        out["parsed"] = [{"type": i["type"], "positive": i["pos"], "pattern": i["patt"].decode("latin1"),
                          "module": i["mod"].decode("latin1"), "exact_module": i.get("exact", 0)} for i in c["items"]]
        out["answers"] = [[n, r, "".join("1" if b else "0" for b in bits)]
                          for (l, s, n), (r, bits) in zip(c["queries"], c["qres"])]
        out["match_pattern_module"] = [[pth, so.decode("latin1") if so is not None else None, r]
                                       for pth, so, r in c.get("mres", [])]
    if "impl" in c:
        i = dict(c["impl"])
        i["after"] = i["after"].hex()
        i["thead"] = i["thead"].hex()
        out["update"] = i
    return out


# ---------------------------------------------------------------- in-process run
def run_inproc(ctx, h, pcases, ucases, fcases=(), rcases=()):
    lines = []
    for c in pcases:
        lines += pat_lines(c)
    for c in ucases:
        lines += upd_lines(c)
    for c in fcases:
        lines += find_lines(c)
    for c in rcases:
        lines += rpl_lines(c)
    out = Out(h.run(lines))
    for c in pcases:
        read_pat(out, c)
    for c in ucases:
        read_upd(out, c)
    for c in fcases:
        read_find(out, c)
    for c in rcases:
        read_rpl(out, c)


def detect_variant(ctx, h):
    """the dedicated witness of the trampoline-page defect: text ends 1 byte before a page boundary and the
    next page is mapped (what every ELF with a following segment looks like)"""
    rng_state = ctx.rng.getstate()
    import random
    c = gen_update_case(random.Random(14), 0, witness="occupied")
    ctx.rng.setstate(rng_state)
    run_inproc(ctx, h, [], [c])
    return c


def verdict_inproc(ctx, pcases, ucases, res, fcases=(), rcases=()):
    if res is None:
        return
    for i in res.get("r_violations", [])[:3]:
        c = rcases[i]
        ctx.violation("C14 violated: read_patchable_loc does not deliver the patchable locations of a %s module "
                      "(first-segment p_vaddr %#x) relative to the module's start (or the process died reading them)"
                      % (c["elf"], c["first_vaddr"]), {"mode": "rpl", "case": rpl_json(c)}, True)
    if res.get("r_mismatch") and not res.get("r_violations"):
        c = rcases[res["r_mismatch"][0]]
        ctx.violation("model and implementation of read_patchable_loc disagree (%d cases); the property checker accepts "
                      "the implementation's result on every explored case" % len(res["r_mismatch"]),
                      {"correspondence": "C14.Model.read_patchable_loc vs arch/x86_64/mcount-dynamic.c",
                       "mode": "rpl", "case": rpl_json(c)}, False)
    for i in res.get("f_violations", [])[:3]:
        c = fcases[i]
        ctx.violation("C14 violated: a module with a patchable function (NOP form at the post-endbr64 entry of an "
                      "ordinary function) gets a dynamic type that never patches (mcount_arch_find_module)",
                      {"mode": "find", "case": find_json(c)}, True)
    if res.get("f_mismatch") and not res.get("f_violations"):
        c = fcases[res["f_mismatch"][0]]
        ctx.violation("model and implementation of mcount_arch_find_module disagree (%d cases); the property checker "
                      "accepts the implementation's choice on every explored case" % len(res["f_mismatch"]),
                      {"correspondence": "C14.Model.find_module_type vs arch/x86_64/mcount-dynamic.c",
                       "mode": "find", "case": find_json(c)}, False)
    for i in res["p_violations"][:3]:
        c = pcases[i]
        ctx.violation("C14 violated: match_pattern_list's verdict is not the polarity of the last matching "
                      "pattern (or the parsed list does not reflect the -P/-U options in order)",
                      {"mode": "pattern", "case": case_json(c), "implementation": impl_json(c)}, True)
    for i in res["u_violations"][:3]:
        c = ucases[i]
        ctx.violation("C14 violated by the in-process dynamic update: bytes, trampoline or page permissions "
                      "after patching are not what the property allows",
                      {"mode": "update", "case": case_json(c), "implementation": impl_json(c)}, True)
    if not res["p_violations"] and not res["u_violations"]:
        if res["p_mismatch"]:
            c = pcases[res["p_mismatch"][0]]
            ctx.violation("model and implementation of parse_pattern_list/match_pattern_list disagree (%d cases); the "
                          "property checker accepts the implementation's behaviour on every explored case"
                          % len(res["p_mismatch"]),
                          {"correspondence": "C14.Model.parse_pattern_list/match_pattern_list vs libmcount/dynamic.c",
                           "mode": "pattern", "case": case_json(c), "implementation": impl_json(c)}, False)
        if res["u_mismatch"]:
            c = ucases[res["u_mismatch"][0]]
            ctx.violation("model and implementation of the dynamic update disagree (%d cases); the property checker "
                          "accepts the implementation's behaviour on every explored case" % len(res["u_mismatch"]),
                          {"correspondence": "C14.Model.{setup_trampoline,patch_func_matched,cleanup_trampoline,"
                           "freeze_code} vs libmcount/dynamic.c + arch/x86_64/mcount-dynamic.c",
                           "mode": "update", "case": case_json(c), "implementation": impl_json(c)}, False)
    ctx.extra["disagreements_checked"] = ctx.extra.get("disagreements_checked", 0) + len(res["p_mismatch"]) + len(
        res["u_mismatch"])
    inl = [i for i in res.get("u_in_layout", []) if i < len(ucases)]
    ctx.extra["update_cases_in_domain_of_C14_update_exact_layout"] = ctx.extra.get(
        "update_cases_in_domain_of_C14_update_exact_layout", 0) + len(inl)
    ctx.extra["...of_which_changed_bytes"] = ctx.extra.get("...of_which_changed_bytes", 0) + sum(
        1 for i in inl if "impl" in ucases[i] and ucases[i]["impl"]["after"] != ucases[i]["before"])
    ctx.extra["...of_which_tight_adjacent_layout"] = ctx.extra.get("...of_which_tight_adjacent_layout", 0) + sum(
        1 for i in inl if "tight-layout" in ucases[i].get("tags", []))


def common_meta(ctx):
    ctx.rule = ("pattern cases: a -P/-U option list (or a raw ';' string) x 3-7 (library, soname, symbol) queries, "
                "distinct = distinct (type, string, default module, queries); update cases: a fake module of 1-7 "
                "functions with generated prologues (4 NOP forms, near misses, call/jmp, with/without endbr64), "
                "sizes around max(min_size,6), symbol types, patchable-section targets (incl. symbol-less, "
                "mid-symbol, duplicate), text end at page offsets {mid,4080,4081,4095,0,1}, pattern list; distinct = "
                "distinct (layout, patterns, size filter); non-trivial = at least one pattern hits a queried name / "
                "at least one function is visited with a non-zero decision; find cases: the same generated function "
                "windows and symbol tables x 3 real ELF files (no profiling symbol, mcount, __fentry__) through "
                "mcount_arch_find_module, non-trivial = a patching type is chosen; e2e cases: one generated program "
                "(10 build variants: gcc/clang/g++ patchable entries incl. =7,2, =5,2, non-PIE, C++ namespaces/overloads, "
                "endbr64, -mfentry -mnop-mcount with and without endbr64; plus programs with a patchable shared library "
                "linked at start-up or dlopen()ed, one case per module) x one -P/-U/-Z option set, plus a sweep of "
                "-Z values around INT_MAX, 2^32, LONG_MAX, 0 and negative numbers; update cases also carry "
                "patchable-section locations 1..4 bytes in front of a function")
    ctx.trusted = [
        "Coq 8.16.1 kernel incl. vm_compute (no native_compute); axioms as printed by Print Assumptions (none)",
        "hand-written model coq/theories/C14/Model.v of libmcount/dynamic.c (parse_pattern_list, match_pattern_list, "
        "skip_sym, patch_{patchable,normal}_func_matched, mcount_save_code/freeze_code page effects) and "
        "arch/x86_64/mcount-dynamic.c (mcount_setup_trampoline, mcount_cleanup_trampoline, patch_fentry_code, "
        "unpatch_func, mcount_patch_func, mcount_unpatch_func, the type decision of mcount_arch_find_module) and of the "
        "-Z chain uftrace.c strtol -> int, cmds/record.c \"%d\", libmcount strtoul -> unsigned",
        "libc regcomp/regexec and fnmatch (bracket/backslash patterns) are oracles answered by the implementation "
        "itself; a Gallina matcher is used and cross-checked for literal, '*' and '?' patterns",
        "correspondence harness harness/c/c14_harness.c (#includes libmcount/dynamic.c, links the scratch build's "
        "libmcount objects) + props/c14.py (generators, /proc/self/maps parsing, ELF/nm parsing for e2e)",
        "gcc/clang/g++ used to build the generated e2e programs; the kernel's mprotect/mmap(MAP_FIXED_NOREPLACE); "
        "the hand-written three-instruction machine of Model.v (NOP forms, call rel32, jmp *1(%rip)) and its "
        "assumption that __fentry__ returns with the state preserved (property C01)",
    ]
    ctx.assume = [
        "mprotect on a module's text range succeeds (all pages mapped); its failure path (return -1) is not modelled",
        "patching happens before main() in a single thread: safety of the 5-byte rewrite w.r.t. concurrently executing "
        "threads is not covered",
        "symbol tables are sorted with disjoint ranges (find_sym = the unique symbol containing the address); the "
        "exactness theorems additionally need every endbr64 function >= 9 bytes and every -U'd function >= 6 bytes "
        "(the check counts how many generated cases satisfy this: update_cases_in_domain_of_C14_update_exact_layout)",
        "module-type detection: which sections an ELF has and what check_trace_functions answers are inputs of the model "
        "(read from the real file / the real function); symbols outside the dumped text window are not probed end-to-end",
        "patch methods of this build only: __patchable_function_entries and fentry NOPs (no capstone, no xray); "
        "DYNAMIC_PG unpatching via __mcount_loc is not modelled",
    ]


def setup(ctx):
    coq.prove(ctx, "C14")
    objdir = build.get_build("plain", ctx.log)
    return objdir, Harness(ctx, objdir)


def nontrivial_pat(c):
    return any(r != 0 for r, _ in c["qres"])


def nontrivial_upd(c):
    return c["impl"]["stats"][0] > 0 or c["impl"]["after"] != c["before"]


def run(ctx):
    common_meta(ctx)
    objdir, h = setup(ctx)
    rng = ctx.rng
    pcases = [gen_pattern_case(rng, i) for i in range(ctx.n(250, 3000))]
    ucases = [gen_update_case(rng, i) for i in range(ctx.n(260, 3000))]
    # the known-defect class (a page must be added but the next page is occupied) is only visited by the witness
    ucases = [c for c in ucases if not c["fatal_expected"]]
    build_reallib(ctx)
    elfs = build_elfs(ctx)
    fcases = [gen_find_case(rng, i, elfs) for i in range(ctx.n(120, 1200))]
    relfs = build_rpl_elfs(ctx, rng)
    rcases = [gen_rpl_case(rng, e) for e in relfs for _ in range(ctx.n(3, 20))]
    wit = detect_variant(ctx, h)
    run_inproc(ctx, h, pcases, ucases, fcases, rcases)
    for c in rcases:
        ctx.case(key=("rpl", c["elf"], tuple(c["locs"])), nontrivial=bool(c["targets"]),
                 tags=["rpl:" + t for t in c["tags"]] + ["rpl:died" if c["fatal"] else "rpl:ran"], size=len(c["locs"]))
    for c in fcases:
        ctx.case(key=("find", c["elf"], c["wbase"], c["window"], tuple(c["syms"])), nontrivial=c["itype"] != 0,
                 tags=["find:" + t for t in set(c["tags"])] + ["find:type=%d" % c["itype"]], size=len(c["window"]))
    for c in pcases:
        ctx.case(key=("pat", c["ptype"], c["funcs"], c["defmod"], tuple(c["queries"])), nontrivial=nontrivial_pat(c),
                 tags=["pattern:" + t for t in c["tags"]] + ["ptype=%d" % c["ptype"]]
                 + ["pattern:module-%s%s" % ("visited" if r_ else "skipped", "-by-soname" if so else "")
                    for pth, so, r_ in c.get("mres", [])],
                 sample={"case": case_json(c), "implementation": impl_json(c)} if len(ctx.samples) < 2 and nontrivial_pat(c) else None,
                 size=len(c["funcs"]))
    ns = 0
    for c in ucases:
        nt = nontrivial_upd(c)
        smp = None
        if nt and ns < 2:
            smp = {"case": case_json(c), "implementation": impl_json(c)}
            ns += 1
        ctx.case(key=("upd", c["ty"], c["min"], c["perms"], c["text_addr"], c["text_size"], c["wbase"], c["before"],
                      tuple(c["syms"]), tuple(c["targets"]), c["funcs"], c["ptype"]), nontrivial=nt,
                 tags=["update:" + t for t in set(c["tags"])] + ["update:fatal" if c["impl"]["fatal"] else "update:ran"]
                 + ["update:changed-bytes" if c["impl"]["after"] != c["before"] else "update:no-change",
                    "update:min_size=%d" % c["min"]]
                 + (["update:code-pages"] if c["impl"]["ncp"] else []),
                 sample=smp, size=len(c["before"]))
    # The trampoline-page defect (C14-1) is repaired in /repo ("fix:" commit, see known-findings.txt):
    # the model describes the repaired code and the former witness is an ordinary case - if the
    # defect returns, the checker rejects the implementation's behaviour and a VIOLATION is reported.
    ctx.c14_fixed = True
    ctx.extra["trampoline_page_variant"] = "as found (pr_err)" if wit["impl"]["fatal"] else "repaired (returns -1)"
    res = evaluate(ctx, pcases, ucases + [wit], fixed=True, fcases=fcases, rcases=rcases)
    if res is not None:
        ctx.case(key=("witness", KNOWN_KEY), tags=["update:witness-trampoline-page-occupied"])
        verdict_inproc(ctx, pcases, ucases + [wit], res, fcases, rcases)
    from props import c14_e2e
    c14_e2e.run(ctx, objdir, h)


def replay(ctx, obj):
    common_meta(ctx)
    objdir, h = setup(ctx)
    mode = obj.get("mode")
    c = dict(obj.get("case") or {})
    wit = detect_variant(ctx, h)
    fixed = not wit["impl"]["fatal"]
    ctx.c14_fixed = fixed
    if mode == "e2e":
        from props import c14_e2e
        c14_e2e.replay(ctx, objdir, h, obj)
        return
    if not c:
        ctx.log("replay file has no case; nothing to re-execute")
        return
    c["queries"] = [(l, s, n) for l, s, n in c.get("queries", [])]
    c["tags"] = []
    build_reallib(ctx)
    if mode == "find":
        elfs = build_elfs(ctx)
        f = {"kind": "find", "elf": c["elf"], "path": elfs[c["elf"]], "wbase": c["wbase"],
             "window": bytes.fromhex(c["window"]), "syms": [tuple(x) for x in c["syms"]], "tags": []}
        run_inproc(ctx, h, [], [], [f])
        res = evaluate(ctx, [], [], fcases=[f])
        ctx.case(key="replay", sample=find_json(f))
        ctx.log("replayed:", find_json(f)["implementation"])
        verdict_inproc(ctx, [], [], res, [f])
        return
    if mode == "pattern":
        c["cli"] = [tuple(o) for o in c["cli"]] if c.get("cli") is not None else None
        run_inproc(ctx, h, [c], [])
        res = evaluate(ctx, [c], [])
        ctx.case(key="replay", sample={"case": case_json(c), "implementation": impl_json(c)})
        ctx.log("replayed:", impl_json(c))
        verdict_inproc(ctx, [c], [], res)
    else:
        c["before"] = bytes.fromhex(c["before"])
        c["syms"] = [tuple(s) for s in c["syms"]]
        run_inproc(ctx, h, [], [c])
        res = evaluate(ctx, [], [c], fixed=fixed)
        ctx.case(key="replay", sample={"case": case_json(c), "implementation": impl_json(c)})
        ctx.log("replayed:", impl_json(c))
        verdict_inproc(ctx, [], [c], res)
