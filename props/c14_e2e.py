"""C14 end-to-end line: generated programs under the real `uftrace record -P/-U/-Z`.

A generated C program (functions of different sizes, some not patchable) is built with
  pfe      gcc  -fpatchable-function-entry=5                      (90 x 5)
  pfe-cet  gcc  -fpatchable-function-entry=5 -fcf-protection=full (endbr64 + 90 x 5)
  clang    clang -fpatchable-function-entry=5                     (0f 1f 44 00 08)
  fentry   gcc  -pg -mfentry -mnop-mcount -no-pie                 (0f 1f 44 00 00, no section)
and run natively and under uftrace.  The program prints its result, a window of its own text,
its __patchable_function_entries and /proc/self/maps.  The model gets the native window, the ELF's
symbols (nm -S), the text segment (readelf -l), the options; it must reproduce the traced window and
the set of traced names; the checker judges bytes, traced names, output, exit code and W^X.
"""
import os
import re

from vf import coq
from vf.core import sh
from props import c14 as base

STRIP_KEY = "patchable-pre-entry-stripped"
REGRESSION_VARIANTS = ("fentry-cet", "pfe-7,2", "pfe-5,2", "pfe-nopie", "pfe-lld-base", "pfe-stripped")
NAMES = ["alpha", "alpine", "beta", "bet", "gamma_", "delta1", "tiny", "leaf", "work", "_under", "zeta9"]
VARIANTS = {
    "pfe": (["gcc", "-O1", "-fpatchable-function-entry=5", "-fcf-protection=none"], 5),
    "pfe-cet": (["gcc", "-O1", "-fpatchable-function-entry=5", "-fcf-protection=full"], 5),
    "clang": (["clang", "-O1", "-fpatchable-function-entry=5"], 5),
    "pfe-7,2": (["gcc", "-O1", "-fpatchable-function-entry=7,2", "-fcf-protection=none"], 5),
    "pfe-5,2": (["gcc", "-O1", "-fpatchable-function-entry=5,2", "-fcf-protection=none"], 5),
    "pfe-cxx": (["g++", "-O1", "-fpatchable-function-entry=5", "-fcf-protection=none"], 5),
    "pfe-lld-base": (["gcc", "-O1", "-fpatchable-function-entry=5", "-fcf-protection=none", "-fuse-ld=lld", "-pie",
                      "-Wl,--image-base=0x200000"], 5),
    "pfe-stripped": (["gcc", "-O1", "-fpatchable-function-entry=5", "-fcf-protection=none", "-s"], 5),
    "pfe-nopie": (["gcc", "-O1", "-fpatchable-function-entry=5", "-fno-pie", "-no-pie", "-fcf-protection=none"], 5),
    "fentry": (["gcc", "-O1", "-pg", "-mfentry", "-mnop-mcount", "-fno-pie", "-no-pie", "-fcf-protection=none"], 3),
    "fentry-cet": (["gcc", "-O1", "-pg", "-mfentry", "-mnop-mcount", "-fno-pie", "-no-pie", "-fcf-protection=full"], 3),
}


LIBNAMES = ["lib_one", "lib_two", "lib_alpha", "lib_beta", "lib_work", "lib_tiny", "lib_zeta"]
LIB_DUMP = r"""
extern char __ehdr_start __attribute__((visibility("hidden")));
extern unsigned long __start___patchable_function_entries[] __attribute__((weak, visibility("hidden")));
extern unsigned long __stop___patchable_function_entries[] __attribute__((weak, visibility("hidden")));
NI void lib_dump(void)
{
	unsigned long lo = ~0UL, hi = 0, a; int i; char line[512]; FILE *f;
	char *base = &__ehdr_start;
	for (i = 0; ltable[i]; i++) { a = (unsigned long)ltable[i]; if (a < lo) lo = a; if (a > hi) hi = a; }
	a = (unsigned long)lib_dump; if (a < lo) lo = a; if (a > hi) hi = a;
	hi += 48;
	printf("LT %lu ", lo - (unsigned long)base);
	for (a = lo; a < hi; a++) printf("%02x", *(unsigned char *)a);
	printf("\n");
	if (__start___patchable_function_entries) {
		unsigned long *p;
		printf("LPFE");
		for (p = __start___patchable_function_entries; p < __stop___patchable_function_entries; p++)
			printf(" %lu", *p - (unsigned long)base);
		printf("\n");
	}
	f = fopen("/proc/self/maps", "r");
	while (f && fgets(line, sizeof line, f)) {
		unsigned long s, e; char p[8];
		if (sscanf(line, "%lx-%lx %7s", &s, &e, p) == 3)
			printf("LM %s %ld %ld\n", p, (long)(s - (unsigned long)base), (long)(e - (unsigned long)base));
	}
	if (f) fclose(f);
}
"""


def gen_library(rng):
    names = rng.sample(LIBNAMES, rng.choice([2, 3, 4]))
    src = ["#include <stdio.h>", "#include <string.h>", "#define NI __attribute__((noinline))", "volatile int lsink;"]
    funcs = []
    for i, n in enumerate(names):
        kind = rng.choice(["small", "big", "big"])
        attr = "__attribute__((patchable_function_entry(0)))" if rng.random() < 0.2 else ""
        if kind == "small":
            src.append("%s NI int %s(int x) { return x * %d + %d; }" % (attr, n, i + 5, i))
        else:
            src.append("%s NI int %s(int x) { int s = %d, i; for (i = 0; i < x + 2; i++) { s = s * 7 + (i ^ x); lsink = s; } "
                       "return s & 0xfff; }" % (attr, n, i))
        funcs.append({"name": n, "kind": kind, "nopatch": bool(attr)})
    src.append("typedef void (*fp_t)(void);")
    src.append("void lib_dump(void);")
    src.append("static fp_t ltable[] = { %s, (fp_t)0 };" % ", ".join("(fp_t)%s" % f["name"] for f in funcs))
    src.append(LIB_DUMP)
    # "prog_plugin.so": the executable's name is a prefix of the library's (default module must not apply to it)
    fname = rng.choice(["libc14e2e.so", "libc14e2e.so", "prog_plugin.so"])
    return {"funcs": funcs, "src": "\n".join(src) + "\n", "file": fname,
            "soname": rng.choice([None, None, "libc14so.so.3"]) if fname.startswith("lib") else None}


def gen_program(rng, variant, lib=None, libmode=None):
    names = rng.sample(NAMES, rng.choice([4, 5, 6, 7]))
    nopatch = "__attribute__((no_instrument_function))" if variant.startswith("fentry") else \
        "__attribute__((patchable_function_entry(0)))"
    funcs = []
    src = ["#include <stdio.h>", "#include <string.h>", "#include <stdlib.h>", "#define NI __attribute__((noinline))",
           "extern char __executable_start;",
           "extern unsigned long __start___patchable_function_entries[] __attribute__((weak));",
           "extern unsigned long __stop___patchable_function_entries[] __attribute__((weak));",
           "volatile int sink;"]
    cxx = variant.endswith("cxx")
    for i, n in enumerate(names):
        kind = rng.choice(["tiny", "small", "small", "big", "big"])
        attr = nopatch if rng.random() < 0.2 else ""
        static = "static " if rng.random() < 0.3 else ""
        ns = cxx and rng.random() < 0.6
        q = "ns::" + n if ns else n
        op, cl = ("namespace ns { ", " }") if ns else ("", "")
        if kind == "tiny":
            src.append("%s%s%s NI void %s(void) { __asm__ volatile(\"\"); }%s" % (op, static, attr, n, cl))
            call = "%s(); acc += %d;" % (q, i + 1)
            cast = "(fp_t)(void (*)(void))%s" % q
        elif kind == "small":
            src.append("%s%s%s NI int %s(int x) { return x * %d + %d; }%s" % (op, static, attr, n, i + 3, i, cl))
            call = "acc += %s(acc & 15);" % q
            cast = "(fp_t)(int (*)(int))%s" % q
            if cxx and rng.random() < 0.5:       # an overload: two symbols, one demangled name
                src.append("%s%s NI int %s(double x) { return (int)(x * %d.5); }%s" % (op, attr, n, i + 1, cl))
                call += " acc += %s(1.5 + (acc & 3));" % q
        else:
            src.append("%s%s%s NI int %s(int x) { int s = %d, i; for (i = 0; i < x + 3; i++) { s = s * 31 + (i ^ x); "
                       "sink = s; } return s & 0xffff; }%s" % (op, static, attr, n, i, cl))
            call = "acc += %s(acc & 7);" % q
            cast = "(fp_t)(int (*)(int))%s" % q
        funcs.append({"name": q, "kind": kind, "nopatch": bool(attr), "call": call, "cast": cast})
    src.append("typedef void (*fp_t)(void);")
    src.append("int main(void);")
    src.append("static fp_t table[] = { %s, (fp_t)0 };" % ", ".join(f["cast"] for f in funcs))
    src.append(r"""
NI void dump_all(void)
{
	unsigned long lo = ~0UL, hi = 0, a; int i; char line[512]; FILE *f;
	char *base = &__executable_start;
	for (i = 0; table[i]; i++) { a = (unsigned long)table[i]; if (a < lo) lo = a; if (a > hi) hi = a; }
	a = (unsigned long)dump_all; if (a < lo) lo = a; if (a > hi) hi = a;
	a = (unsigned long)main; if (a < lo) lo = a; if (a > hi) hi = a;
	hi += 48;
	{ const char *z = getenv("UFTRACE_MIN_SIZE"); printf("Z %s\n", z ? z : "-"); }
	printf("T %lu ", lo - (unsigned long)base);
	for (a = lo; a < hi; a++) printf("%02x", *(unsigned char *)a);
	printf("\n");
	if (__start___patchable_function_entries) {
		unsigned long *p;
		printf("PFE");
		for (p = __start___patchable_function_entries; p < __stop___patchable_function_entries; p++)
			printf(" %lu", *p - (unsigned long)base);
		printf("\n");
	}
	f = fopen("/proc/self/maps", "r");
	while (f && fgets(line, sizeof line, f)) {
		unsigned long s, e; char p[8];
		if (sscanf(line, "%lx-%lx %7s", &s, &e, p) == 3)
			printf("M %s %ld %ld\n", p, (long)(s - (unsigned long)base), (long)(e - (unsigned long)base));
	}
	if (f) fclose(f);
}
""")
    pre, libcalls, post = "", "", ""
    if lib is not None:
        if libmode == "dlopen":
            src.insert(0, "#include <dlfcn.h>")
            pre = ("void *h = dlopen(\"./%s\", RTLD_NOW); void (*ldump)(void); " % lib["file"] +
                   "if (!h) { printf(\"dlopen failed: %s\\n\", dlerror()); return 3; } ldump = (void (*)(void))dlsym(h, \"lib_dump\");")
            for f in lib["funcs"]:
                libcalls += " acc += ((int (*)(int))dlsym(h, \"%s\"))(acc & 7);" % f["name"]
            post = "ldump();"
        else:
            for f in lib["funcs"]:
                src.append("int %s(int);" % f["name"])
                libcalls += " acc += %s(acc & 7);" % f["name"]
            src.append("void lib_dump(void);")
            post = "lib_dump();"
    src.append("int main(void) { int acc = 1; %s %s %s printf(\"R %%d\\n\", acc); fflush(stdout); dump_all(); %s return 0; }"
               % (pre, " ".join(f["call"] for f in funcs), libcalls, post))
    return {"variant": variant, "funcs": funcs, "src": "\n".join(src) + "\n", "lib": lib, "libmode": libmode}


def demangle_simple(n):
    """what uftrace's demangler (simple mode: no parameter list) makes of the Itanium names our generated C++
    programs contain: plain and nested identifiers, internal linkage (_ZL)"""
    if not n.startswith("_Z"):
        return n
    p = n[2:]
    if p.startswith("L"):
        p = p[1:]
    nested = p.startswith("N")
    if nested:
        p = p[1:]
    parts = []
    while p and (p[0].isdigit() or p[0] == "L"):
        if p[0] == "L":
            p = p[1:]
            continue
        m = re.match(r"\d+", p)
        ln = int(m.group(0))
        parts.append(p[m.end():m.end() + ln])
        p = p[m.end() + ln:]
        if not nested:
            break
    return "::".join(parts) if parts else n


def build_program(ctx, prog, tag, fill=None):
    d = os.path.join(ctx.scratch, "e2e-" + tag)
    os.makedirs(d, exist_ok=True)
    src = os.path.join(d, "prog.cpp" if prog["variant"].endswith("cxx") else "prog.c")
    text = prog["src"]
    if fill:
        text += 'asm(".pushsection .text\\n .skip %d, 0xcc\\n .popsection");\n' % fill
    open(src, "w").write(text)
    exe = os.path.join(d, "prog")
    cmd, ty = VARIANTS[prog["variant"]]
    extra = []
    if prog.get("lib") is not None:
        lsrc = os.path.join(d, "lib.c")
        open(lsrc, "w").write(prog["lib"]["src"])
        lpath = os.path.join(d, prog["lib"].get("file", "libc14e2e.so"))
        lcmd = ["gcc", "-O1", "-fpatchable-function-entry=5", "-fcf-protection=none", "-shared", "-fPIC", "-o", lpath, lsrc]
        if prog["lib"]["soname"]:
            lcmd.append("-Wl,-soname," + prog["lib"]["soname"])
        rc, out, err = sh(lcmd, timeout=120)
        if rc != 0:
            raise RuntimeError("e2e library does not compile: %s" % err[-1500:])
        if prog["lib"]["soname"]:
            os.symlink(os.path.basename(lpath), os.path.join(d, prog["lib"]["soname"]))
        extra = ["-ldl"] if prog["libmode"] == "dlopen" else ["-L" + d, "-l:" + os.path.basename(lpath),
                                                              "-Wl,-rpath,$ORIGIN"]
        prog["libpath"] = lpath
        rc, out, err = sh(["nm", "-S", "--defined-only", lpath], check=True)
        ls = []
        for l in out.splitlines():
            k = l.split()
            if len(k) == 4 and k[2] in "tTwW":
                ls.append((int(k[0], 16), int(k[1], 16), {"t": 116, "T": 84, "w": 119, "W": 119}[k[2]], k[3]))
        prog["libsyms"] = sorted(ls)
        rc, out, err = sh(["readelf", "-lW", lpath], check=True)
        for l in out.splitlines():
            k = l.split()
            if k and k[0] == "LOAD" and "E" in "".join(k[6:-1]):
                prog["lib_text_addr"], prog["lib_text_size"] = int(k[2], 16), int(k[5], 16)
                break
    rc, out, err = sh(cmd + ["-o", exe, src] + extra, timeout=120)
    if rc != 0:
        raise RuntimeError("e2e program does not compile (%s): %s" % (prog["variant"], err[-1500:]))
    rc, out, err = sh(["readelf", "-SW", exe], check=True)
    # what mcount_arch_find_module decides: the section wins (DYNAMIC_PATCHABLE), else NOPs at the start of the
    # first ordinary functions (DYNAMIC_FENTRY_NOP)
    ty = 5 if "__patchable_function_e" in out else 3
    prog["exe"], prog["dir"], prog["ty"] = exe, d, ty
    # symbols and text segment
    rc, out, err = sh(["nm", "-S", "--defined-only", exe], check=True)
    syms = []
    for l in out.splitlines():
        k = l.split()
        if len(k) == 4 and k[2] in "tTwW":
            syms.append((int(k[0], 16), int(k[1], 16), {"t": 116, "T": 84, "w": 119, "W": 119}[k[2]],
                         demangle_simple(k[3])))
    rc, out, err = sh(["readelf", "-lW", exe], check=True)
    base = None
    text = None
    for l in out.splitlines():
        k = l.split()
        if k and k[0] == "LOAD":
            vaddr, memsz = int(k[2], 16), int(k[5], 16)
            if base is None:
                base = vaddr & ~4095
            flags = "".join(k[6:-1])
            if "E" in flags and text is None:
                text = (vaddr, memsz)
    prog["base"] = base
    prog["syms"] = sorted((a - base, s, t, n) for a, s, t, n in syms)
    prog["text_addr"], prog["text_size"] = text[0] - base, text[1]
    return prog


def parse_run(out):
    r = {"R": None, "T": None, "PFE": [], "maps": [], "Z": None, "LT": None, "LPFE": [], "Lmaps": []}
    for l in out.splitlines():
        k = l.split()
        if not k:
            continue
        if k[0] == "R":
            r["R"] = l
        elif k[0] == "T" and len(k) == 3:
            r["T"] = (int(k[1]), bytes.fromhex(k[2]))
        elif k[0] == "Z" and len(k) == 2:
            r["Z"] = k[1]
        elif k[0] == "LT" and len(k) == 3:
            r["LT"] = (int(k[1]), bytes.fromhex(k[2]))
        elif k[0] == "LPFE":
            r["LPFE"] = [int(x) for x in k[1:]]
        elif k[0] == "LM" and len(k) == 4:
            r["Lmaps"].append((k[1], int(k[2]), int(k[3])))
        elif k[0] == "PFE":
            r["PFE"] = [int(x) for x in k[1:]]
        elif k[0] == "M" and len(k) == 4:
            r["maps"].append((k[1], int(k[2]), int(k[3])))
    return r


def perm_at(maps, off):
    for p, s, e in maps:
        if s <= off < e:
            return {"r-x": "x", "rwx": "a", "rw-": "w", "r--": "r", "---": "n"}.get(p[:3], "?")
    return "u"


def run_case(ctx, objdir, prog, opts, ptype, minsz, tag):
    uft = os.path.join(objdir, "uftrace")
    exe = prog["exe"]
    if "native" not in prog:
        rc, out, err = sh(["timeout", "20", exe], timeout=30, cwd=prog["dir"])      # -pg programs drop gmon.out
        prog["native"] = parse_run(out)
        prog["native_rc"] = rc
        if prog["native"]["T"] is None:
            raise RuntimeError("e2e program printed no text window natively: rc=%d %s" % (rc, (out + err)[-300:]))
    dd = os.path.join(prog["dir"], "data-" + tag)
    args = ["timeout", "30", uft, "record", "--no-pager", "--no-event", "--no-libcall", "--libmcount-path=" + objdir,
            "-d", dd]
    if ptype == 3:
        args += ["--match", "glob"]
    for k, a in opts:
        args += ["-P" if k == "P" else "-U", a]
    if minsz is not None:
        args += ["-Z", minsz if isinstance(minsz, str) else str(minsz)]
    rc, out, err = sh(args + [exe], timeout=60, cwd=prog["dir"])
    tr = parse_run(out)
    names = []
    if os.path.exists(os.path.join(dd, "info")):
        rc2, rep, err2 = sh(["timeout", "30", uft, "report", "--no-pager", "-d", dd, "-f", "call"], timeout=60)
        for l in rep.splitlines()[2:]:
            k = l.split()
            if len(k) >= 2 and k[0].isdigit():
                names.append(k[1])
    return {"rc": rc, "stdout_tail": out[-300:], "stderr_tail": err[-300:], "run": tr, "traced": sorted(set(names)),
            "args": [a for a in args[2:] if not a.startswith("--libmcount")]}


def c_ecase(c):
    regok, tbl = base.oracle_tables(c)
    r, t = base.c_tables(regok, tbl)
    o = c["obs"]
    return ("{| e_ptype := %s; e_funcs := %s; e_defmod := %s; e_regok := %s; e_tbl := %s; e_sect := %s; e_chk := %s; e_zarg := %s;\n"
            "   e_lib := %s; e_so := %s; e_kind := %s; e_text_addr := %s; e_text_size := %s; e_next_mapped := %s; e_wbase := %d; e_before := %s;\n"
            "   e_syms := [%s]; e_targets := [%s];\n"
            "   o_died := %s; o_after := %s; o_traced := [%s]; o_same_output := %s; o_rc_same := %s; o_wx := %d; "
            "o_tramp_perm := %s; o_env := %s |}" % (
                base.PT[c["ptype"]], base.cb(c["funcs"]), base.cb(c["defmod"]), r, t, "SectPatchable" if c["ty"] == 5 else "SectNone", base.cz(c["chk"]), base.cz(c["min"]),
                base.cb(c["lib"]), base.copt_bytes(base.so_bytes(c.get("so"))), c.get("mkind", "MMain"),
                base.cz(c["text_addr"]), base.cz(c["text_size"]), base.cbool(c["next_mapped"]),
                c["wbase"], base.cb(c["before"]), ";".join(base.c_sym(s) for s in c["syms"]),
                ";".join("%d" % a for a in c["targets"]),
                base.cbool(o["died"]), base.cb(o["after"]), ";".join(base.cb(n) for n in o["traced"]),
                base.cbool(o["same_output"]), base.cbool(o["rc_same"]), o["wx"], base.PERM[o["tramp_perm"]],
                "None" if o["env"] is None else "(Some %s)" % base.cz(o["env"])))


def zvalue(minsz):
    """the number the user wrote after -Z (None: option not given)"""
    if minsz is None:
        return 0
    return int(minsz, 0) if isinstance(minsz, str) else int(minsz)


def env_value(txt):
    if txt is None or txt == "-":
        return None
    try:
        return int(txt)
    except ValueError:
        return -1


# -Z values around every case split of the option parser and of libmcount's strtoul/unsigned
Z_BOUNDARY = [1, 6, 7, 16, "0x20", 2147483647, 2147483648, 4294967295, 4294967296, 4294967297, 4294967312,
              9223372036854775807, 9223372036854775808, 0, -1, -4294967295, -4294967280]


def find_chk(h, prog):
    """check_trace_functions() of the program's ELF through the in-process harness (irrelevant when the
    patchable section decides)"""
    if "chk" not in prog:
        prog["chk"] = 0
        if prog["ty"] != 5:
            out = h.run(["FIND %s 0 cc 0" % base.hx(prog["exe"])])
            k = out[0].split()
            if k[0] != "FT":
                raise RuntimeError("c14 harness (FIND on e2e program): %r" % out[:2])
            prog["chk"] = int(k[2])
    return prog["chk"]


def make_case(ctx, h, prog, opts, ptype, minsz, res, module="exe"):
    nat = prog["native"]
    tr = res["run"]
    islib = module == "lib"
    if islib:
        wbase, before = nat["LT"]
        text_addr, text_size = prog["lib_text_addr"], prog["lib_text_size"]
        nmaps, tmaps, syms, pfe = nat["Lmaps"], tr["Lmaps"], prog["libsyms"], nat["LPFE"]
        path, ty, chk = prog["libpath"], 5, 0
        so = prog["lib"]["soname"]
        kind = "MDlopen" if prog["libmode"] == "dlopen" else "MLoadLib"
        tT = tr["LT"]
    else:
        wbase, before = nat["T"]
        text_addr, text_size = prog["text_addr"], prog["text_size"]
        nmaps, tmaps, syms, pfe = nat["maps"], tr["maps"], prog["syms"], nat["PFE"]
        path, ty, chk = prog["exe"], prog["ty"], find_chk(h, prog)
        so, kind, tT = None, "MMain", tr["T"]
    tend = text_addr + text_size
    nextpg = (tend + 4095) // 4096 * 4096
    c = {"kind": "e2e", "ptype": ptype, "funcs": base.render(opts), "defmod": os.path.basename(prog["exe"]),
         "lib": path, "so": so, "mkind": kind, "module": module, "ty": ty, "chk": chk, "min": zvalue(minsz), "zarg": minsz,
         "text_addr": text_addr, "text_size": text_size, "next_mapped": perm_at(nmaps, nextpg) != "u",
         "wbase": wbase, "before": before,
         "syms": [s for s in syms if wbase <= s[0] and s[0] + 9 <= wbase + len(before)],
         # uftrace reads the section in file order; the tracee printed it in that order
         "targets": list(pfe) if ty == 5 else [],
         "variant": prog["variant"] + ("+" + prog["libmode"] + ":" + module if prog.get("lib") else ""),
         "opts": [list(o) for o in opts]}
    died = tT is None or tr["T"] is None
    tramp = (tend + 4095) // 4096 * 4096 - 16
    if tramp < tend:
        tramp += 16
    libnames = set(f["name"] for f in prog["lib"]["funcs"]) | {"lib_dump"} if prog.get("lib") else set()
    traced = [n for n in res["traced"] if (n in libnames) == islib]
    if prog["variant"] == "pfe-stripped":
        # `uftrace report` names a symbol-less function by its run-time address; libmcount matched "<offset>"
        lows = {}
        for e in pfe:
            lows.setdefault(e & 0xfff, []).append(e)
        conv = []
        for n in traced:
            m = re.match(r"^<([0-9a-f]+)>$", n)
            # the recorded address of such a function is the return address of its fentry call: entry + 5
            cand = lows.get((int(m.group(1), 16) - 5) & 0xfff, []) if m else []
            conv.append("<%x>" % cand[0] if len(cand) == 1 else n)
        traced = conv
    c["obs"] = {"died": died, "after": b"" if died else tT[1], "traced": traced,
                "same_output": (not died) and tr["R"] == nat["R"] and tT[0] == wbase,
                "rc_same": res["rc"] == prog["native_rc"],
                "wx": 0 if died else sum(1 for p, s, e in tr["maps"] if "w" in p[:3] and "x" in p[:3]),
                "tramp_perm": "u" if died else perm_at(tmaps, tramp),
                "env": env_value(tr["Z"]),
                "rc": res["rc"], "args": res["args"], "stderr_tail": res["stderr_tail"]}
    names = [s[3] for s in c["syms"]]
    # locations outside every symbol get the name "<offset>" (stripped binaries): the oracle must know them too
    names += ["<%x>" % a for a in c["targets"] if not any(s[0] <= a < s[0] + s[1] for s in c["syms"])]
    c["queries"] = [(c["lib"], so, n) for n in dict.fromkeys(names)]
    return c


def evaluate(ctx, cases, name="cases_e2e"):
    defs = "Definition ecases : list ecase := [\n%s\n].\n" % ";\n".join(c_ecase(c) for c in cases)
    res = coq.run_cases(ctx, name, base.PRE, defs, [
        ("e_mismatch", "bad_indices (e_agrees %s) ecases 0" % base.cbool(getattr(ctx, "c14_fixed", False))),
        ("e_violations", "bad_indices e_ok ecases 0"),
    ])
    if res is None:
        return None
    return {k: coq.parse_nat_list(v) for k, v in res.items()}


def case_json(c):
    j = {k: v for k, v in c.items() if k not in ("before", "obs", "items", "qres", "queries", "syms")}
    j["before"] = c["before"].hex()
    j["syms"] = [list(s) for s in c["syms"]]
    o = dict(c["obs"])
    o["after"] = o["after"].hex()
    j["observed"] = o
    return j


def gen_optsets(rng, prog, n):
    present = [f["name"] for f in prog["funcs"]] + ["main", "dump_all"]
    mods, pmod = ["prog", "pr", "other", ""], 0.15
    if prog.get("lib"):
        present += [f["name"] for f in prog["lib"]["funcs"]] * 2 + ["lib_dump"]
        if prog["lib"].get("file", "").startswith("prog_"):
            mods, pmod = ["prog_plugin", "prog_pl", "prog", "prog", "other", ""], 0.4
        else:
            mods, pmod = ["libc14e2e", "libc14e2e", "libc14", "libc14so", "lib", "prog", "other", ""], 0.55
    sets = []
    for i in range(n):
        ptype = rng.choice([2, 2, 3])
        k = rng.choice([1, 2, 2, 3, 4])
        opts = []
        for _ in range(k):
            r = rng.random()
            if r < 0.45:
                pat = rng.choice(present)
            elif ptype == 2:
                pat = rng.choice([".", "^al", "a$", "^(alpha|beta)$", "e", "^[a-d]", "_", "t.*a", "^main$|^dump", "^ns::",
                                  "::", "ns::(alpha|beta|work)"])
            else:
                pat = rng.choice(["*", "al*", "*a", "?e*", "[a-d]*", "*_*", "main", "dump_*", "ns::*", "*::*", "ns::?e*"])
            if rng.random() < pmod:
                pat += "@" + rng.choice(mods)
            opts.append((rng.choice("PPU"), pat))
        if not any(kk == "P" for kk, _ in opts) or rng.random() < 0.4:
            opts.insert(0, ("P", "." if ptype == 2 else "*"))
        minsz = rng.choice([None, None, 7, 12, 16, 30, 60, rng.choice(Z_BOUNDARY)])
        sets.append((opts, ptype, minsz))
    return sets


def zclass(v):
    if v <= 0:
        return "<=0"
    if v <= 2147483647:
        return "=INT_MAX" if v == 2147483647 else ("<6" if v < 6 else "ordinary")
    if v < 4294967296:
        return "in(INT_MAX,2^32)"
    return ">=2^32"


def mixed_order_optsets(rng, prog, n):
    """option lists that MIX patterns with and without @module in every order: whether a library is looked at must
    depend on the presence of an @module pattern, not on where it stands (first, middle, last)"""
    libmod = os.path.splitext(prog["lib"]["file"])[0]          # e.g. libc14e2e / prog_plugin
    libfns = [f["name"] for f in prog["lib"]["funcs"]]
    exefns = [f["name"] for f in prog["funcs"]] + ["main"]
    sets = []
    shapes = ["lib-first", "lib-last", "lib-middle", "all-lib-then-U-exe", "exe-U-last"]
    for i in range(n):
        shape = shapes[i % len(shapes)]
        ptype = rng.choice([2, 2, 3])
        anyp = "." if ptype == 2 else "*"
        lib_p = ("P", rng.choice([anyp, rng.choice(libfns), "lib_*" if ptype == 3 else "^lib_"]) + "@" + libmod)
        exe_p = ("P", rng.choice(exefns))
        exe_u = ("U", rng.choice(exefns))
        if shape == "lib-first":
            opts = [lib_p, exe_p]
        elif shape == "lib-last":
            opts = [exe_p, lib_p]
        elif shape == "lib-middle":
            opts = [exe_p, lib_p, ("P", rng.choice(exefns))]
        elif shape == "all-lib-then-U-exe":
            opts = [("P", anyp + "@" + libmod), ("P", anyp), exe_u]
        else:
            opts = [("P", anyp), lib_p, ("U", rng.choice(libfns) + "@" + libmod), exe_u]
        sets.append((opts, ptype, None))
    return sets


def verdict(ctx, cases, res, witness_idx=None):
    if res is None:
        return
    viol = list(res["e_violations"])      # the former defect witness is an ordinary case now (defect fixed)
    for i in viol[:3]:
        c = cases[i]
        ctx.violation("C14 violated end-to-end: `uftrace record %s` on a %s program - traced names, code bytes, output "
                      "or page permissions are not what the property allows"
                      % (" ".join(c["obs"]["args"][7:]), c["variant"]),
                      {"mode": "e2e", "case": case_json(c), "source": c.get("source")}, True)
    mism = list(res["e_mismatch"])
    if mism and not viol:
        c = cases[mism[0]]
        ctx.violation("model and the real `uftrace record -P/-U` disagree end-to-end (%d cases); the property checker "
                      "accepts the observed behaviour on every explored case" % len(mism),
                      {"correspondence": "C14.Model (parse, match, patch_func_matched, setup_trampoline) vs uftrace record",
                       "mode": "e2e", "case": case_json(c), "source": c.get("source")}, False)
    ctx.extra["disagreements_checked"] = ctx.extra.get("disagreements_checked", 0) + len(res["e_mismatch"])


def run(ctx, objdir, h):
    rng = ctx.rng
    cases = []
    variants = list(VARIANTS)
    rounds = ctx.n(1, 3)
    for rd in range(rounds):
        for v in variants:
            # the variants that are regression cases of repaired defects get fewer option sets, the first one `-P .`
            nsets = ctx.n(1, 5) if v in REGRESSION_VARIANTS else (ctx.n(1, 8) if v in ("clang", "pfe-cxx") else ctx.n(2, 10))
            try:
                prog = build_program(ctx, gen_program(rng, v), "%s-%d" % (v, rd))
            except RuntimeError as e:
                if "lld" in v:
                    ctx.log("e2e: variant %s cannot be built here (no lld?): %s" % (v, str(e)[-100:]))
                    continue
                raise
            tend = prog["text_addr"] + prog["text_size"]
            if (tend + 4095) // 4096 * 4096 - 16 < tend:
                ctx.log("e2e: generated %s program falls into the trampoline-page defect class; skipped" % v)
                continue
            optsets = gen_optsets(rng, prog, nsets)
            if v == "pfe-stripped":
                # without symbols a function's size is unknown: patching treats it as "big enough" (UINT_MAX), the
                # record-time size filter of libmcount/mcount.c as 0 - with -Z such functions are patched but not
                # recorded.  Outside this property's statement (no size to compare); -Z is not combined with it.
                optsets = [(o, pt, None) for o, pt, z in optsets]
            if v in REGRESSION_VARIANTS:
                o0, pt0, z0 = optsets[0]
                optsets[0] = ([("P", "." if pt0 == 2 else "*")] + [o for o in o0 if o[0] == "U"][:1], pt0, z0)
            for si, (opts, ptype, minsz) in enumerate(optsets):
                res = run_case(ctx, objdir, prog, opts, ptype, minsz, "%d" % si)
                c = make_case(ctx, h, prog, opts, ptype, minsz, res)
                c["source"] = prog["src"]
                cases.append(c)
    # programs with a shared library built with patchable entries: linked at start-up (mcount_dynamic_update with
    # needs_modules) and dlopen()ed (mcount_dynamic_dlopen / match_pattern_module); two module cases per run
    for libmode in ("ld", "dlopen"):
        for rd in range(ctx.n(1, 3)):
            lprog = build_program(ctx, gen_program(rng, "pfe", lib=gen_library(rng), libmode=libmode),
                                  "lib-%s-%d" % (libmode, rd))
            bad = False
            for ta, ts in ((lprog["text_addr"], lprog["text_size"]), (lprog["lib_text_addr"], lprog["lib_text_size"])):
                tend = ta + ts
                bad = bad or (tend + 4095) // 4096 * 4096 - 16 < tend
            if bad:
                continue
            optsets = gen_optsets(rng, lprog, ctx.n(2, 10)) + mixed_order_optsets(rng, lprog, ctx.n(3, 8))
            for si, (opts, ptype, minsz) in enumerate(optsets):
                res = run_case(ctx, objdir, lprog, opts, ptype, minsz, "%d" % si)
                for module in ("exe", "lib"):
                    c = make_case(ctx, h, lprog, opts, ptype, minsz, res, module=module)
                    c["source"] = lprog["src"]
                    c["libsource"] = lprog["lib"]["src"]
                    c["libsoname"] = lprog["lib"]["soname"]
                    c["libmode"] = libmode
                    c["libfile"] = lprog["lib"]["file"]
                    cases.append(c)
    # -Z boundary sweep on one patchable program (regression cases of "fix: size filter: do not wrap around")
    zprog = build_program(ctx, gen_program(rng, "pfe"), "zsweep")
    tend = zprog["text_addr"] + zprog["text_size"]
    if not ((tend + 4095) // 4096 * 4096 - 16 < tend):
        zs = Z_BOUNDARY if ctx.thorough() else [1, 16, 2147483647, 2147483648, 4294967297, 9223372036854775808, 0,
                                               -4294967295, "0x20"]
        for zi, z in enumerate(zs):
            res = run_case(ctx, objdir, zprog, [("P", ".")], 2, z, "z%d" % zi)
            c = make_case(ctx, h, zprog, [("P", ".")], 2, z, res)
            c["source"] = zprog["src"]
            cases.append(c)
    # listed, unrepaired defect: a STRIPPED binary built with -fpatchable-function-entry=N,M (M > 0) - no symbol tells
    # where the function begins, the call is written over the entry point and the program dies
    try:
        ps = build_program(ctx, gen_program(rng, "pfe-5,2"), "stripwit")
        sh(["strip", ps["exe"]], check=True)
        rs = run_case(ctx, objdir, ps, [("P", ".")], 2, None, "s")
        died = rs["run"]["T"] is None
        ctx.case(key=("e2e", "witness", STRIP_KEY), tags=["e2e:witness-stripped-pre-entry"], validated=True)
        ctx.extra.setdefault("defect_witness_still_fails", {})[STRIP_KEY] = bool(died)
        ctx.known_finding(STRIP_KEY, "uftrace record -P . kills a stripped program built with "
                          "-fpatchable-function-entry=5,2 (%s)" % rs["stderr_tail"].strip()[-80:], died,
                          {"mode": "e2e-strip", "source": ps["src"], "args": rs["args"], "stderr": rs["stderr_tail"]})
    except RuntimeError as e:
        ctx.log("e2e stripped witness could not be built: %s" % e)
    # dedicated witness of the trampoline-page defect: pad .text until the segment ends 7 bytes before a page end
    wit = None
    try:
        p0 = gen_program(rng, "pfe")
        build_program(ctx, p0, "wit0")
        tend = p0["text_addr"] + p0["text_size"]
        fill = ((-tend - 7) % 4096)
        pw = build_program(ctx, dict(p0), "wit", fill=fill)
        tend = pw["text_addr"] + pw["text_size"]
        if (tend + 4095) // 4096 * 4096 - 16 < tend:
            res = run_case(ctx, objdir, pw, [("P", ".")], 2, 0, "w")
            c = make_case(ctx, h, pw, [("P", ".")], 2, 0, res)
            c["source"] = pw["src"]
            wit = len(cases)
            cases.append(c)
    except RuntimeError as e:
        ctx.log("e2e witness program could not be built: %s" % e)
    # the oracle answers come from the real match_filter_pattern through the in-process harness
    lines = []
    for c in cases:
        lines += base.pat_lines(c)
    out = base.Out(h.run(lines))
    for c in cases:
        base.read_pat(out, c)
    res = evaluate(ctx, cases)
    for i, c in enumerate(cases):
        o = c["obs"]
        ctx.case(key=("e2e", c["variant"], c["funcs"], c["ptype"], c["min"], c["before"]),
                 nontrivial=(not o["died"]) and o["after"] != c["before"],
                 tags=["e2e:" + c["variant"], "e2e:ptype=%d" % c["ptype"]]
                 + (["e2e:lib-soname"] if c.get("so") else [])
                 + (["e2e:lib-changed" if o["after"] != c["before"] else "e2e:lib-unchanged"] if c.get("module") == "lib" else [])
                 + [
                       "e2e:noZ" if c["zarg"] is None else "e2e:Z" + zclass(c["min"]),
                       "e2e:died" if o["died"] else "e2e:ran"] + (["e2e:witness-trampoline-page"] if i == wit else []),
                 sample={"args": o["args"][4:], "variant": c["variant"], "traced": o["traced"]}
                 if i < 2 else None, size=len(c["before"]))
    if res is not None and wit is not None:
        c = cases[wit]
        still = c["obs"]["died"]
        ctx.extra.setdefault("defect_witness_still_fails", {})[base.KNOWN_KEY + "/e2e"] = bool(still)
    verdict(ctx, cases, res, wit)


def replay(ctx, objdir, h, obj):
    c0 = obj["case"]
    if obj.get("mode") == "e2e-strip":
        ctx.log("replay of the stripped pre-entry witness: run ./check C14 (the witness is rebuilt on every run)")
        return
    variant = c0["variant"].split("+")[0]
    prog = {"variant": variant, "funcs": [], "src": obj["source"]}
    module = c0.get("module", "exe")
    if c0.get("libsource") or obj.get("libsource"):
        lsrc = c0.get("libsource") or obj.get("libsource")
        names = sorted(set(re.findall(r"\b(lib_[a-z0-9]+)\(int x\)", lsrc)))
        prog["lib"] = {"src": lsrc, "soname": c0.get("libsoname"), "funcs": [{"name": n} for n in names],
                       "file": os.path.basename(c0["lib"]) if module == "lib" else c0.get("libfile", "libc14e2e.so")}
        prog["libmode"] = c0.get("libmode", "ld")
    build_program(ctx, prog, "replay")
    opts = [tuple(o) for o in c0["opts"]]
    res = run_case(ctx, objdir, prog, opts, c0["ptype"], c0.get("zarg"), "r")
    c = make_case(ctx, h, prog, opts, c0["ptype"], c0.get("zarg"), res, module=module)
    c["source"] = prog["src"]
    out = base.Out(h.run(base.pat_lines(c)))
    base.read_pat(out, c)
    r = evaluate(ctx, [c])
    ctx.case(key="replay", sample={"args": c["obs"]["args"], "traced": c["obs"]["traced"]})
    ctx.log("replayed e2e:", c["obs"]["args"], "traced:", c["obs"]["traced"], "rc:", c["obs"]["rc"])
    verdict(ctx, [c], r)
