"""C14 end-to-end line (filled in below)"""


def run(ctx, objdir):
    pass


def replay(ctx, objdir, obj):
    pass
