"""C04 - A crashing or killed tracee still leaves a replayable prefix trace.

Theorems: coq/theories/Properties_C04.v (model coq/theories/C04/Model.v of libmcount/record.c
record_ret_stack / get_shmem_buffer / get_new_shmem_buffer, cmds/record.c read_record_mmap /
record_mmap_file / writer / flush_shmem_list / record_remaining_buffer / tid_list / stop_tracing,
libmcount record_trace_data + segv_handler).

Tie, three lines, all on the object code of /repo's current tree:
 (A) store level: the real libmcount (harness/c/c04_prod.c) runs a scripted call history under
     ptrace of harness/c/c04_rec.c, which #includes cmds/record.c and IS the recorder: it lets the
     real recorder code catch up at scripted points, single-steps the producer inside one hook
     call and SIGKILLs it right after the e-th change of (size, RECORDING) in shared memory (or the
     producer dies by SIGSEGV / abort / _exit / exit), then runs the real end-of-recording code.
     shmem_list, the queued sizes and the bytes of <tid>.dat are compared with the model in Coq.
 (B) liveness: real read_record_mmap / sigchld_handler / check_tid_list / drop_pending_forks on scripted messages about
     real child processes (alive, zombie, reaped), compared with the model's tid_list.
 (C) end to end: generated -pg programs (threads, PLT calls) killed by SIGKILL / SIGSEGV / abort /
     _exit / execv / exit / finish trigger at a chosen traced event, and a program whose fork() fails
     (FORK_START without FORK_END); `uftrace record` must end,
     the directory must be complete, replay/report/dump must accept it, and the decoded per-thread
     streams must be whole-record prefixes of the ground-truth log the program kept in a
     MAP_SHARED file (judged by the Coq checker).
"""
import concurrent.futures
import glob
import json
import os
import re
import shutil
import struct
import subprocess
import time

from vf import build, coq
from vf.core import REPO, VERIF, sh

HERE = os.path.dirname(os.path.abspath(__file__))
HC = os.path.join(HERE, "..", "harness", "c")

# ------------------------------------------------------------------ (A) store-level tie
NFUNC = 16
# the size-update discipline of record_ret_stack the model is run with: True = one update per record (the code
# since fix 4751e05); False is the legacy discipline, kept in the model for the `..._legacy_refuted` theorems only
SINGLE_BUMP = True
ARGSPEC = {1: ["arg1"], 2: ["arg1/i32"], 3: ["arg1", "arg2"], 4: ["arg1/i32", "arg2/i32"], 9: ["arg1/i16"]}
RETSPEC = {5: "retval", 6: "retval/i32", 3: "retval"}
NOTRACE = (12, 13)          # UFTRACE_FILTER=!f12;!f13 (-N): these calls sit on the return stack with MCOUNT_FL_NORECORD


def spec_size(s):
    return 4 if ("/i32" in s or "/i16" in s) else 8


def arg_payload(k, a1, a2):
    sp = ARGSPEC.get(k)
    if not sp:
        return b""
    out = b""
    for s, v in zip(sp, (a1, a2)):
        n = spec_size(s)
        out += struct.pack("<Q", v)[:n]        # i16: ALIGN(2, 4) = 4 bytes are copied from the register value
    return out


def ret_payload(k, rv):
    s = RETSPEC.get(k)
    if not s:
        return b""
    return struct.pack("<Q", rv)[:spec_size(s)]


FINISH_FN = 14              # UFTRACE_TRIGGER=f14@finish; UFTRACE_SIGNAL=SIGUSR1@finish


READ_FN = 15                # UFTRACE_TRIGGER=f15@read=proc/statm: "read" / "diff" EVENT records with a 24-byte payload
EVENT_ID_READ_PROC_STATM, EVENT_ID_DIFF_PROC_STATM = 100001, 100003


def statm_vals(k):
    """what c04_prod's fake /proc/self/statm gives on its k-th read, as save_proc_statm stores it (kB, 4k pages)"""
    return ((100 + 7 * k) * 4, (50 + 3 * k) * 4, (20 + k) * 4)


def case_events(c, second=False):
    """EVENT records the read trigger of f15 produces: (time of the ENTRY / EXIT record they go with, is_exit, id, payload)"""
    out, stack, cnt = [], [], 0
    for o in ((c.get("ops2") or []) if second else model_ops(c)):
        if o[0] == "E":
            v = None
            if o[1] == READ_FN:
                v = statm_vals(cnt)
                cnt += 1
                out.append((o[2], False, EVENT_ID_READ_PROC_STATM, struct.pack("<HQQQ", 24, *v)))
            stack.append(v)
        elif stack:
            v = stack.pop()
            if v is not None:
                w = statm_vals(cnt)
                cnt += 1
                d = [(a - b) % (1 << 64) for a, b in zip(w, v)]
                out.append((o[1], True, EVENT_ID_DIFF_PROC_STATM, struct.pack("<HQQQ", 24, *d)))
    return out


def coq_events(evs):
    return "[" + "; ".join("(%d%%N, %s, {| r_time := %d%%N; r_type := 3%%N; r_depth := 0%%N; r_addr := %d%%N; r_pl := %s |})"
                           % (t, coq.coq_bool(x), t, i, coq_bytes(pl)) for t, x, i, pl in evs) + "]"


def no_big_records(c):
    """an EVENT record with payload takes 48 bytes: keep f15 out of cases with smaller buffers"""
    if c["cap"] < 64:
        for key in ("ops", "ops2"):
            if c.get(key):
                c[key] = [("E", 11) + tuple(o[2:]) if (o[0] == "E" and o[1] == READ_FN) else o for o in c[key]]
    return c


def prod_env(with_args):
    env = {"UFTRACE_FILTER": ";".join("!f%d" % k for k in NOTRACE),
           "UFTRACE_TRIGGER": "f%d@finish;f%d@read=proc/statm" % (FINISH_FN, READ_FN),
           "UFTRACE_SIGNAL": "SIGUSR1@finish"}
    if with_args:
        env["UFTRACE_ARGUMENT"] = ";".join("f%d@%s" % (k, ",".join(v)) for k, v in sorted(ARGSPEC.items()))
        env["UFTRACE_RETVAL"] = ";".join("f%d@%s" % (k, v) for k, v in sorted(RETSPEC.items()))
    return env


def gen_case(rng, boundary=None):
    """one store-level case.  ops: ("E", k, t, a1, a2) / ("X", t, rv)"""
    with_args = rng.random() < 0.6
    cap = rng.choice([32, 48, 48, 64, 64, 80, 96, 128, 256, 4080])
    nops = rng.randrange(1, 28)       # (the first hook call also sets the thread up: prepare_shmem_buffer)
    ops, stack, t = [], [], 1000
    for _ in range(nops):
        t += rng.randrange(1, 50)
        if stack and (rng.random() < 0.45 or len(stack) >= 7 or stack[-1] in NOTRACE):
            # (nothing is called from inside a -N function: such calls get no return-stack frame at all)
            if stack[-1] in NOTRACE and rng.random() < 0.25 and _ == nops - 1:
                break               # the history ends inside the -N function: it is the innermost frame when the process dies
            k = stack.pop()
            ops.append(("X", t, rng.randrange(1 << 40)))
        else:
            k = rng.choice([x for x in range(NFUNC) if x != FINISH_FN]) if with_args else rng.choice([0, 7, 8, 10, 11, 12, 12])
            stack.append(k)
            ops.append(("E", k, t, rng.randrange(1 << 48), rng.randrange(1 << 32)))
    mode = rng.choice(["kill", "kill", "kill", "kill", "segv", "abrt", "exit", "end"])
    if boundary:
        mode = boundary
    end, close = None, None
    x = rng.random()
    if boundary is None and x < 0.30 and not (stack and stack[-1] in NOTRACE):
        # the recording of this thread ends between two hook calls: finish trigger, signal trigger, thread end
        end = rng.choice(["trigger", "signal", "signal", "tend"])
        if mode == "kill":
            mode = rng.choice(["exit", "segv", "end"])
        if end == "trigger":
            t += 7
            ops.append(("E", FINISH_FN, t, 0, 0))
    if boundary is None and len(ops) >= 3 and rng.random() < 0.25:
        close = rng.randrange(1, len(ops))          # another thread's mcount_trace_finish closes the pipe before this op
    ops2, sync2 = None, None
    if boundary is None and end is None and close is None and rng.random() < 0.2 and not (stack and stack[-1] in NOTRACE):
        # the task exec()s a second traced image (same tid, new session): TASK_START for a known tid, flush_old_shmem
        ops2, st2, t2 = [], [], t + 1000
        for _ in range(rng.randrange(1, 12)):
            t2 += rng.randrange(1, 50)
            if st2 and (rng.random() < 0.45 or len(st2) >= 6 or st2[-1] in NOTRACE):
                st2.pop()
                ops2.append(("X", t2, rng.randrange(1 << 40)))
            else:
                k = rng.choice([x for x in range(NFUNC) if x != FINISH_FN]) if with_args else rng.choice([0, 7, 8, 10, 11, 12])
                st2.append(k)
                ops2.append(("E", k, t2, rng.randrange(1 << 48), rng.randrange(1 << 32)))
        sync2 = [rng.random() < 0.3 for _ in ops2]
    sync = [rng.random() < 0.3 for _ in ops]
    if end == "signal" and ops[-1][0] == "E":
        sync[-1] = False        # (that entry hook only runs mtd_dtor: it is not an op of the model)
    e = rng.randrange(0, 9) if mode == "kill" else None
    return no_big_records({"cap": cap, "ops": ops, "sync": sync, "mode": mode, "e": e, "args": with_args, "end": end,
                           "close": close, "ops2": ops2, "sync2": sync2})


def case_script(c, second=False):
    """lines of the producer script and the driver's actions; with an exec the first image's script ends with EXEC
    and the second image's script (returned by a second call) carries the kill / the way of dying"""
    lines, actions = [], []
    has2 = bool(c.get("ops2"))
    ops = c["ops2"] if second else c["ops"]
    sync = c["sync2"] if second else c["sync"]
    n = len(ops)
    last_image = second or not has2
    for i, o in enumerate(ops):
        if sync[i]:
            lines.append("S")
            actions.append("R")
        if c.get("close") == i and not second:
            lines.append("CLOSE")
        if c.get("end") == "signal" and i == n - 1:
            lines.append("SIG")
        if c["mode"] == "kill" and i == n - 1 and last_image:
            lines.append("S")
            actions.append("K%d" % c["e"])
        if o[0] == "E":
            lines.append("E %d %d %d %d" % (o[1], o[2], o[3], o[4]))
        else:
            lines.append("X %d %d" % (o[1], o[2]))
    if not last_image:
        lines.append("EXEC @SCRIPT2@")
        return lines, actions
    if c.get("end") == "tend":
        lines.append("TEND")
    if c["mode"] == "kill":
        lines.append("S")
        actions.append("K0")
        lines.append("EXIT")
    else:
        lines.append({"segv": "SEGV", "abrt": "ABRT", "exit": "EXIT", "end": "END"}[c["mode"]])
    return lines, actions


def run_case(rec_exe, prod_exe, workdir, c, idx):
    d = os.path.join(workdir, "k%d" % idx)
    shutil.rmtree(d, ignore_errors=True)
    os.makedirs(d)
    lines, actions = case_script(c)
    script = os.path.join(d, "script.txt")
    if c.get("ops2"):
        lines2, actions2 = case_script(c, second=True)
        script2 = os.path.join(d, "script2.txt")
        with open(script2, "w") as f:
            f.write("\n".join(lines2) + "\n")
        lines = [l.replace("@SCRIPT2@", script2) for l in lines]
        actions = actions + actions2
    with open(script, "w") as f:
        f.write("\n".join(lines) + "\n")
    env = {k: v for k, v in os.environ.items() if not k.startswith("UFTRACE_")}
    env.update(prod_env(c["args"]))
    t_run = time.time()
    try:
        p = subprocess.run(["timeout", "60", rec_exe, "kill", d, str(c["cap"] + 16), prod_exe, script] + actions,
                           env=env, capture_output=True, text=True, timeout=90)
    except subprocess.TimeoutExpired:
        return {"error": "timeout"}
    res = {"rc": p.returncode, "stderr": p.stderr[-400:], "wall": time.time() - t_run}
    for l in p.stdout.splitlines():
        if l.startswith("STATUS "):
            res["status"] = l[7:]
        elif l.startswith("SHL"):
            res["shl"] = [int(x) for x in l.split()[1:]]
        elif l.startswith("SHF"):
            res["shf"] = [int(x) for x in l.split()[1:]]
        elif l.startswith("WL"):
            res["wl"] = [int(x) for x in l.split()[1:]]
        elif l.startswith("FILE"):
            res["file"] = bytes.fromhex(l[5:].strip())
    shutil.rmtree(d, ignore_errors=True)
    if "file" not in res or "shl" not in res or "wl" not in res or "shf" not in res:
        res["error"] = "no result (rc=%s): %s" % (p.returncode, p.stderr[-300:])
    return res


def coq_bytes(b):
    return "[" + "; ".join("%d" % x for x in b) + "]%N"


def coq_nats(l):
    return "[" + "; ".join("%d" % x for x in l) + "]"


def model_ops(c):
    """the hook calls that reach the recording code: after a signal trigger an entry hook only runs mtd_dtor"""
    ops = c["ops"]
    if c.get("end") == "signal" and ops and ops[-1][0] == "E":
        return ops[:-1]
    return ops


def coq_ops(c, f0, second=False):
    out, stack = [], []
    for o in ((c.get("ops2") or []) if second else model_ops(c)):
        if o[0] == "E":
            k = o[1]
            stack.append(k)
            pl = arg_payload(k, o[3], o[4]) if c["args"] else b""
            out.append("OEnter %d %d %s %s" % (f0 + 256 * k + 4, o[2], coq_bytes(pl), coq.coq_bool(k in NOTRACE)))
        else:
            k = stack.pop()
            pl = ret_payload(k, o[2]) if c["args"] else b""
            out.append("OExit %d %s" % (o[1], coq_bytes(pl)))
    return "[" + "; ".join(out) + "]"


def coq_case(c, r, f0):
    end = c.get("end")
    flush = (end == "trigger") if end else c["mode"] in ("segv", "abrt")
    nmo = len(model_ops(c))
    return ("{| tc_single := " + coq.coq_bool(SINGLE_BUMP) + "; tc_cap := %d; tc_ops := %s; tc_sync := [%s]; tc_kill := %s; tc_flush := %s; "
            "tc_close := %d; tc_end := %d; tc_ops2 := %s; tc_sync2 := [%s]; tc_evs := %s; tc_evs2 := %s; "
            "tc_shl := %s; tc_shf := %s; tc_wl := %s; tc_file := %s |}" % (
                c["cap"], coq_ops(c, f0), "; ".join(coq.coq_bool(b) for b in c["sync"][:nmo]),
                ("Some %d" % c["e"]) if c["mode"] == "kill" else "None",
                coq.coq_bool(flush),
                c["close"] if c.get("close") is not None else nmo + 9,
                {None: 0, "trigger": 1, "signal": 1, "tend": 1 if c.get("close") is not None else 2}[end],
                coq_ops(c, f0, second=True), "; ".join(coq.coq_bool(b) for b in (c.get("sync2") or [])),
                coq_events(case_events(c)), coq_events(case_events(c, second=True)),
                coq_nats(r["shl"]), coq_bytes(r["shf"]), coq_nats(r["wl"]), coq_bytes(r["file"])))


PRE = """From Coq Require Import NArith ZArith List Bool Arith.
Import ListNotations.
Require Import UV.C04.Model.
"""


def eval_store(ctx, cases, results, f0, name="cases_store"):
    defs = "Definition cases : list tcase := [\n%s\n].\n" % ";\n".join(
        coq_case(c, r, f0) for c, r in zip(cases, results))
    res = coq.run_cases(ctx, name, PRE, defs, [
        ("mismatch", "bad_indices (fun tc => agrees tc && agrees_f tc) cases 0"),
        ("violations", "bad_indices ok_case cases 0"),
        ("dark", "bad_indices (fun tc => negb (is_dark (tc_state tc))) cases 0"),
    ])
    if res is None:
        return None
    return {k: coq.parse_nat_list(v) for k, v in res.items()}


def model_obs(ctx, c, r, f0):
    """what the model expects for one case (for the replay file of a disagreement)"""
    defs = "Definition tc : tcase := %s.\n" % coq_case(c, r, f0)
    res = coq.run_cases(ctx, "case_obs", PRE, defs, [("obs", "obs (tc_state tc)")])
    return None if res is None else res["obs"][:2000]


def case_json(c, r=None):
    j = {"cap": c["cap"], "ops": [list(o) for o in c["ops"]], "sync": c["sync"], "mode": c["mode"], "e": c["e"],
         "args": c["args"], "end": c.get("end"), "close": c.get("close"),
         "ops2": [list(o) for o in c["ops2"]] if c.get("ops2") else None, "sync2": c.get("sync2")}
    if r is not None:
        j["impl"] = {"status": r.get("status"), "shl": r.get("shl"), "shf": r.get("shf"), "wl": r.get("wl"),
                     "file": r.get("file", b"").hex()}
    return j


def case_from_json(j):
    return {"cap": j["cap"], "ops": [tuple(o) for o in j["ops"]], "sync": j["sync"], "mode": j["mode"], "e": j["e"],
            "args": j["args"], "end": j.get("end"), "close": j.get("close"),
            "ops2": [tuple(o) for o in j["ops2"]] if j.get("ops2") else None, "sync2": j.get("sync2")}


def build_store(ctx, objdir):
    rec_exe = os.path.join(ctx.scratch, "c04_rec")
    prod_exe = os.path.join(ctx.scratch, "c04_prod")
    build.cc([os.path.join(HC, "c04_rec.c"), build.uf_archive(objdir)], rec_exe, objdir, extra=build.UF_LIBS)
    build.cc([os.path.join(HC, "c04_prod.c")] + build.libmcount_objs(objdir, ""), prod_exe, objdir,
             extra=build.LINK_LIBS + ["-DLIBMCOUNT", "-no-pie"])
    rc, out, _ = sh(["nm", prod_exe], check=True)
    f0 = None
    for l in out.splitlines():
        k = l.split()
        if len(k) == 3 and k[2] == "f0":
            f0 = int(k[0], 16)
    if f0 is None:
        raise RuntimeError("symbol f0 not found in c04_prod")
    return rec_exe, prod_exe, f0


def store_cases(ctx):
    rng = ctx.rng
    cases = []
    # boundary cases first: every way of dying, tiny buffers (1 or 2 records per buffer)
    for mode in ("kill", "segv", "abrt", "exit", "end"):
        for cap in (32, 48, 64):
            c = gen_case(rng, boundary=mode)
            c["cap"] = cap
            cases.append(no_big_records(c))
    # kill after each store index of one op that writes several records with payload
    base = {"cap": 64, "args": True, "mode": "kill",
            "ops": [("E", 1, 1010, 77, 0), ("E", 3, 1020, 5, 6), ("E", 0, 1030, 0, 0), ("X", 1040, 9)]}
    for e in range(0, 9):
        c = dict(base)
        c["sync"] = [False, False, e % 2 == 1, False]
        c["e"] = e
        cases.append(c)
    # the innermost frame is a -N function (MCOUNT_FL_NORECORD), its callers' ENTRYs are not written yet
    for mode in ("segv", "abrt", "kill", "exit"):
        for args in (False, True):
            ops = [("E", 0, 1010, 1, 2), ("E", 1 if args else 7, 1020, 3, 4), ("E", 3 if args else 8, 1030, 5, 6),
                   ("E", 12, 1040, 7, 8)]
            cases.append({"cap": 4080, "args": args, "mode": mode, "ops": ops, "sync": [False] * 4,
                          "e": 0 if mode == "kill" else None, "directed": "norecord-innermost"})
            ops2 = [("E", 0, 1010, 1, 2), ("E", 10, 1020, 0, 0), ("X", 1030, 0)] + [(o[0], o[1], o[2] + 100, o[3], o[4]) for o in ops[1:]]
            cases.append({"cap": 64, "args": args, "mode": mode, "ops": ops2, "sync": [False, False, True, False, False, False],
                          "e": 0 if mode == "kill" else None, "directed": "norecord-innermost"})
    cases += shrink_cases()
    cases += finish_cases()
    # exec: the second image is killed inside its very first hook call (before / after its REC_START + flag, i.e. before
    # or after TASK_START made the recorder flush the old image's buffer), later, or it crashes
    for args in (False, True):
        ops1 = [("E", 0, 1010, 1, 2), ("E", 1 if args else 7, 1020, 3, 4), ("E", 8, 1030, 0, 0), ("X", 1040, 0)]
        ops2 = [("E", 0, 2010, 1, 2), ("E", 3 if args else 10, 2020, 5, 6), ("X", 2030, 7), ("E", 11, 2040, 0, 0)]
        for cap in (48, 4080):
            for n2, mode, e in ((1, "kill", 0), (1, "kill", 1), (1, "kill", 2), (3, "kill", 1), (4, "segv", None), (4, "exit", None)):
                if ctx.n(0, 1) == 0 and cap == 4080 and (mode == "exit" or e == 2 or not args):
                    continue        # (quick tier: a subset)
                cases.append({"cap": cap, "args": args, "mode": mode, "ops": ops1, "sync": [False, False, cap == 48, False],
                              "e": e, "end": None, "close": None, "ops2": ops2[:n2], "sync2": [False, True, False, False][:n2],
                              "directed": "exec"})
    # EVENT records with payload (record_event): f15@read=proc/statm gives a "read" event after f15's ENTRY and a "diff"
    # event before its EXIT; killed after every store that the recorder can see while they are written
    for args in (False, True):
        for cap in (64, 4080):
            evops = [("E", 0, 1010, 1, 2), ("E", READ_FN, 1020, 3, 4), ("E", 8, 1030, 0, 0), ("X", 1040, 0), ("X", 1050, 7), ("X", 1060, 8)]
            for n, es in ((4, range(0, 7)), (5, range(0, 4))):
                for e in es:
                    if ctx.n(0, 1) == 0 and not ((cap == 64 and not args) or (cap == 4080 and args and e % 2 == 1)):
                        continue        # (quick tier: a subset)
                    cases.append({"cap": cap, "args": args, "mode": "kill", "ops": evops[:n], "sync": [False, False, n == 5, False, False][:n],
                                  "e": e, "end": None, "close": None, "directed": "event-with-payload"})
            for mode, n in (("segv", 2), ("abrt", 3), ("exit", 6), ("segv", 5)):
                if ctx.n(0, 1) == 0 and (cap == 64) == args:
                    continue
                cases.append({"cap": cap, "args": args, "mode": mode, "ops": evops[:n], "sync": [False] * n, "e": None,
                              "end": None, "close": None, "directed": "event-with-payload"})
    # killed inside the thread's very first hook call (mcount_prepare -> prepare_shmem_buffer): before REC_START 0,
    # after the buffer's flag is set, after the call
    for e in (0, 1, 2):
        for k, args in ((0, False), (1, True), (12, False)):
            cases.append({"cap": 64, "args": args, "mode": "kill", "ops": [("E", k, 1010, 5, 6)], "sync": [False], "e": e,
                          "end": None, "close": None, "directed": "first-hook-call"})
    for _ in range(ctx.n(26, 800)):
        cases.append(gen_case(rng))
    return cases


def finish_cases():
    """directed: the recording of the thread ends between two hook calls (finish trigger with open calls, signal
    trigger picked up by an entry / by an exit hook, thread end), and the pipe is closed by another thread before a
    buffer switch (the thread goes dark) - followed by every way of dying"""
    out = []
    base = [("E", 0, 1010, 1, 2), ("E", 1, 1020, 3, 4), ("E", 7, 1030, 0, 0), ("X", 1040, 0), ("E", 3, 1050, 5, 6)]
    for cap in (48, 4080):
        for args in (False, True):
            def mk(ops, mode, end=None, close=None, e=None, sync=None):
                return {"cap": cap, "args": args, "mode": mode, "ops": ops, "sync": sync or [False] * len(ops), "e": e,
                        "end": end, "close": close, "directed": "finish"}
            out.append(mk(base + [("E", FINISH_FN, 1060, 0, 0)], "exit", end="trigger"))
            out.append(mk(base + [("E", FINISH_FN, 1060, 0, 0)], "segv", end="trigger",
                          sync=[False, False, False, True, False, False]))
            out.append(mk(base + [("E", 8, 1060, 0, 0)], "end", end="signal"))           # entry hook: only mtd_dtor
            out.append(mk(base + [("X", 1060, 9)], "exit", end="signal"))                 # exit hook: records, then mtd_dtor
            out.append(mk(base + [("X", 1060, 9)], "exit", end="tend"))
            more = base + [("X", 1060, 9), ("X", 1070, 9), ("E", 10, 1080, 0, 0), ("X", 1090, 0), ("X", 1100, 9), ("E", 11, 1110, 9, 9)]
            for close in (1, 3, 6):
                out.append(mk(more, "exit", close=close))
                out.append(mk(more, "kill", close=close, e=2))
                out.append(mk(more, "segv", close=close, sync=[False] * 7 + [True] + [False] * 3))
    return out


def shrink_cases():
    """ring grown to 5 buffers, recorder catches up twice, the next switch shrinks the ring to 4 (last buffer
    WRITTEN and unmapped), then the ring grows again: index 4 is re-created (zero filled, flag RECORDING only)"""
    ops, sync, t = [], [], 1000

    def call(n, s=False):
        nonlocal t
        for i in range(n):
            t += 10
            ops.append(("E", 7 + (i % 2), t, 0, 0))
            sync.append(s and i == 0)
        for i in range(n):
            t += 10
            ops.append(("X", t, 0))
            sync.append(False)
    call(5)
    call(1, True)
    call(1, True)
    out = []
    for k in range(4):
        call(1)
        if k >= 2:          # k == 2: the re-created buffer 4 is the current one at the end
            for mode, e in (("exit", None), ("kill", 1), ("kill", 2), ("segv", None)):
                out.append({"cap": 32, "ops": list(ops), "sync": list(sync), "mode": mode, "e": e, "args": False,
                            "directed": "shrink"})
    return out


def run_store(ctx, objdir):
    rec_exe, prod_exe, f0 = build_store(ctx, objdir)
    cases = store_cases(ctx)
    work = os.path.join(ctx.scratch, "store")
    os.makedirs(work, exist_ok=True)
    t0 = time.time()
    with concurrent.futures.ThreadPoolExecutor(max_workers=8) as ex:
        results = list(ex.map(lambda ic: run_case(rec_exe, prod_exe, work, ic[1], ic[0]), enumerate(cases)))
    ctx.log("store-level tie: %d producer runs in %.1fs" % (len(cases), time.time() - t0))
    slow = sorted(((r.get("wall", 0), r.get("status"), c.get("directed"), c["mode"]) for c, r in zip(cases, results)), reverse=True)[:6]
    ctx.log("slowest store-level runs: %s" % (slow,))
    good_c, good_r = [], []
    ret_exe = (rec_exe, prod_exe, f0)
    for c, r in zip(cases, results):
        if r.get("error"):
            ctx.broken("store-level harness failed on a case: %s" % r["error"], json.dumps(case_json(c))[:2000])
            continue
        good_c.append(c)
        good_r.append(r)
    if not good_c:
        return ret_exe
    res = eval_store(ctx, good_c, good_r, f0)
    if res is None:
        return ret_exe
    dark = set(res["dark"])
    for i, (c, r) in enumerate(zip(good_c, good_r)):
        nrec = len(r["file"]) // 16
        tags = ["store:mode=" + c["mode"], "store:cap=%d" % c["cap"]]
        if c["mode"] == "kill":
            tags.append("store:kill-after-event=%d" % min(c["e"], 8))
        if any(c["sync"]):
            tags.append("store:recorder-interleaved")
        if len(r["wl"]) >= 2:
            tags.append("store:>=2-buffers-flushed-at-end")
        if max(r["shl"] + [0]) >= 2:
            tags.append("store:ring-grown")
        if c["mode"] == "kill" and c["args"]:
            tags.append("store:kill-in-history-with-payload-records")
        if c.get("directed"):
            tags.append("store:directed-" + c["directed"])
        if case_events(c) or case_events(c, second=True):
            tags.append("store:EVENT-record-with-payload(record_event)")
        if i in dark and c.get("close") is not None:
            tags.append("store:thread-went-dark(REC_END/REC_START-lost)")
        if c.get("end"):
            tags.append("store:recording-ends-by-" + c["end"])
        if c.get("close") is not None:
            tags.append("store:pipe-closed-by-another-thread")
        if c.get("ops2"):
            tags.append("store:exec-second-image(TASK_START,flush_old_shmem)")
        ctx.case(key=("store", json.dumps(case_json(c), sort_keys=True)), nontrivial=len(r["file"]) > 0, tags=tags,
                 size=len(c["ops"]), sample=case_json(c, r) if len(ctx.samples) < 2 and nrec > 2 else None)
    store_verdict(ctx, good_c, good_r, res, f0)
    return ret_exe


def store_verdict(ctx, cases, results, res, f0):
    for i in res["violations"][:3]:
        ctx.violation("C04 violated (store level): the data file left after the tracee died is not a whole-record "
                      "prefix of what the thread executed", {"line": "store", "case": case_json(cases[i], results[i])},
                      True)
    if res["mismatch"] and not res["violations"]:
        i = res["mismatch"][0]
        ctx.violation("model and implementation disagree on the shm/recorder protocol (%d cases); the property "
                      "checker accepts the implementation's files" % len(res["mismatch"]),
                      {"line": "store", "correspondence": "C04.Model (pstep/rstep/wstep/finish; abstract and faithful machine) vs libmcount/record.c + "
                       "cmds/record.c", "first_disagreement": case_json(cases[i], results[i]),
                       "model_expects(shl, flags, wl, file)": model_obs(ctx, cases[i], results[i], f0)}, False)
    ctx.extra["store_disagreements"] = len(res["mismatch"])


# ------------------------------------------------------------------ (A2) two producers, one recorder
def gen_ops(rng, with_args, nops):
    ops, stack, t = [], [], 1000 + rng.randrange(500)
    for _ in range(nops):
        t += rng.randrange(1, 50)
        if stack and (rng.random() < 0.45 or len(stack) >= 6 or stack[-1] in NOTRACE):
            stack.pop()
            ops.append(("X", t, rng.randrange(1 << 40)))
        else:
            k = rng.choice([x for x in range(NFUNC) if x not in (FINISH_FN, READ_FN)]) if with_args else rng.choice([0, 7, 8, 10, 11, 12])
            stack.append(k)
            ops.append(("E", k, t, rng.randrange(1 << 48), rng.randrange(1 << 32)))
    return ops


def gen_multi_case(rng):
    with_args = rng.random() < 0.5
    cap = rng.choice([32, 48, 64, 64, 96, 4080])
    opss = [gen_ops(rng, with_args, rng.randrange(1, 14)) for _ in range(2)]
    left = [len(o) for o in opss]
    acts = []
    killed = None
    while left[0] + left[1] > 0:
        x = rng.random()
        if x < 0.2:
            acts.append(("R",))
            continue
        i = rng.randrange(2)
        if left[i] == 0:
            i = 1 - i
        if killed is None and rng.random() < 0.12:
            acts.append(("K", i, rng.randrange(0, 6)))
            killed = i
            left[i] = 0                 # the rest of its history never happens
        else:
            acts.append(("P", i))
            left[i] -= 1
    return {"cap": cap, "args": with_args, "opss": opss, "acts": acts}


def multi_script(ops):
    lines = ["S"]
    for o in ops:
        lines.append("E %d %d %d %d" % (o[1], o[2], o[3], o[4]) if o[0] == "E" else "X %d %d" % (o[1], o[2]))
        lines.append("S")
    lines.append("EXIT")
    return lines


def run_multi_case(rec_exe, prod_exe, workdir, c, idx):
    d = os.path.join(workdir, "m%d" % idx)
    shutil.rmtree(d, ignore_errors=True)
    os.makedirs(d)
    scripts = []
    for i, ops in enumerate(c["opss"]):
        f = os.path.join(d, "script%d.txt" % i)
        open(f, "w").write("\n".join(multi_script(ops)) + "\n")
        scripts.append(f)
    acts = ["R" if a[0] == "R" else "P%d" % a[1] if a[0] == "P" else "K%d:%d" % (a[1], a[2]) for a in c["acts"]]
    env = {k: v for k, v in os.environ.items() if not k.startswith("UFTRACE_")}
    env.update(prod_env(c["args"]))
    try:
        p = subprocess.run(["timeout", "60", rec_exe, "multi", d, str(c["cap"] + 16), prod_exe] + scripts + acts,
                           env=env, capture_output=True, text=True, timeout=90)
    except subprocess.TimeoutExpired:
        return {"error": "timeout"}
    res = {"files": {}}
    for l in p.stdout.splitlines():
        k = l.split()
        if l.startswith("SHL"):
            res["shl"] = [tuple(int(x) for x in e.split(":")) for e in k[1:]]
        elif l.startswith("WL"):
            res["wl"] = [tuple(int(x) for x in e.split(":")) for e in k[1:]]
        elif l.startswith("FILE"):
            res["files"][int(k[0][4:])] = bytes.fromhex(k[1]) if len(k) > 1 else b""
    shutil.rmtree(d, ignore_errors=True)
    if "shl" not in res or "wl" not in res or len(res["files"]) != 2:
        res["error"] = "no result (rc=%s): %s" % (p.returncode, p.stderr[-300:])
    return res


def coq_mcase(c, r, f0):
    def acts():
        return "; ".join("AR" if a[0] == "R" else "AP %d" % a[1] if a[0] == "P" else "AK %d %d" % (a[1], a[2]) for a in c["acts"])
    opss = "; ".join(coq_ops({"ops": ops, "args": c["args"]}, f0) for ops in c["opss"])
    return ("{| mc_cap := %d; mc_ops := [%s]; mc_acts := [%s]; mc_shl := [%s]; mc_wl := [%s]; mc_files := [%s] |}" % (
        c["cap"], opss, acts(), "; ".join("(%d, %d, %d%%N)" % t for t in r["shl"]),
        "; ".join("(%d, %d)" % t for t in r["wl"]), "; ".join(coq_bytes(r["files"][i]) for i in (0, 1))))


def multi_json(c, r=None):
    j = {"cap": c["cap"], "args": c["args"], "opss": [[list(o) for o in ops] for ops in c["opss"]], "acts": [list(a) for a in c["acts"]]}
    if r is not None:
        j["impl"] = {"shl": r.get("shl"), "wl": r.get("wl"), "files": [r["files"][i].hex() for i in (0, 1)] if len(r.get("files", {})) == 2 else None}
    return j


def eval_multi(ctx, cases, results, f0, name="cases_multi"):
    defs = "Definition mcases : list mcase := [\n%s\n].\n" % ";\n".join(coq_mcase(c, r, f0) for c, r in zip(cases, results))
    res = coq.run_cases(ctx, name, PRE, defs, [("mismatch", "bad_indices magrees mcases 0"),
                                               ("violations", "bad_indices mok_case mcases 0")])
    return None if res is None else {k: coq.parse_nat_list(v) for k, v in res.items()}


def multi_verdict(ctx, cases, results, res):
    for i in res["violations"][:3]:
        ctx.violation("C04 violated (two producers, one recorder): a data file left after the tracees died is not a "
                      "whole-record prefix of what that task executed", {"line": "multi", "case": multi_json(cases[i], results[i])}, True)
    if res["mismatch"] and not res["violations"]:
        i = res["mismatch"][0]
        ctx.violation("multi-thread model and implementation disagree on the recorder's shared lists (%d cases); the "
                      "property checker accepts the implementation's files" % len(res["mismatch"]),
                      {"line": "multi", "correspondence": "C04.Model mst / mstep / mfinish vs cmds/record.c with two producers",
                       "first_disagreement": multi_json(cases[i], results[i])}, False)
    ctx.extra["multi_disagreements"] = len(res["mismatch"])


def run_multi(ctx, rec_exe, prod_exe, f0):
    rng = ctx.rng
    cases = [gen_multi_case(rng) for _ in range(ctx.n(20, 160))]
    work = os.path.join(ctx.scratch, "multi")
    os.makedirs(work, exist_ok=True)
    t0 = time.time()
    with concurrent.futures.ThreadPoolExecutor(max_workers=8) as ex:
        results = list(ex.map(lambda ic: run_multi_case(rec_exe, prod_exe, work, ic[1], ic[0]), enumerate(cases)))
    ctx.log("two-producer tie: %d runs in %.1fs" % (len(cases), time.time() - t0))
    gc, gr = [], []
    for c, r in zip(cases, results):
        if r.get("error"):
            ctx.broken("two-producer harness failed on a case: %s" % r["error"], json.dumps(multi_json(c))[:2000])
            continue
        gc.append(c)
        gr.append(r)
        tags = ["multi:cap=%d" % c["cap"]]
        if any(a[0] == "K" for a in c["acts"]):
            tags.append("multi:one-killed-inside-a-hook-call")
        if any(a[0] == "R" for a in c["acts"]):
            tags.append("multi:recorder-interleaved")
        if len(set(t[0] for t in r["wl"])) == 2:
            tags.append("multi:both-tids-queued-at-the-end")
        ctx.case(key=("multi", json.dumps(multi_json(c), sort_keys=True)), nontrivial=any(r["files"].values()), tags=tags,
                 size=len(c["acts"]))
    if not gc:
        return
    res = eval_multi(ctx, gc, gr, f0)
    if res is not None:
        multi_verdict(ctx, gc, gr, res)


# ------------------------------------------------------------------ (B) liveness tie
def msg_consts():
    txt = open(os.path.join(coq.TH, "Gen", "Consts.v")).read()
    out = {}
    for name in ("TASK_START", "TASK_END", "FORK_START", "FORK_END", "FINISH"):
        m = re.search(r"Definition UFTRACE_MSG_%s : N := (\d+)\." % name, txt)
        out[name] = int(m.group(1))
    return out


class LiveHarness:
    def __init__(self, exe, d):
        os.makedirs(d, exist_ok=True)
        self.p = subprocess.Popen([exe, "live", d], stdin=subprocess.PIPE, stdout=subprocess.PIPE,
                                  stderr=subprocess.DEVNULL, text=True, bufsize=1)

    def cmd(self, line):
        self.p.stdin.write(line + "\n")
        self.p.stdin.flush()
        out = self.p.stdout.readline()
        if not out:
            raise RuntimeError("c04_rec live died on: " + line)
        return out.strip()

    def close(self):
        try:
            self.p.stdin.write("QUIT\n")
            self.p.stdin.flush()
            self.p.wait(timeout=10)
        except Exception:
            self.p.kill()


def run_live_case(exe, d, rng, MC, witness=False):
    """returns the list of events (for Coq) of one history.  Every history ends with: all tasks dead, check,
    drop_pending_forks on an empty pipe without writer, check - the last check must say `all exited`."""
    h = LiveHarness(exe, d)
    evs = []
    try:
        kids = [int(h.cmd("SPAWN").split()[1]) for _ in range(rng.randrange(1, 5))]
        alive, zombie, dead = set(kids), set(), set()
        ghost = [4190000 + rng.randrange(1000) for _ in range(2)]     # tids that never existed
        dead.update(ghost)
        p0 = kids[0]
        pending_fork = []          # parent pids of FORK_START without FORK_END

        def msg(name, pid, tid):
            h.cmd("MSG %d %d %d" % (MC[name], pid, tid))
            evs.append(("msg", name, pid, tid))

        def ents(k):
            return [tuple(int(x) for x in e.split(":")) for e in k]

        def check():
            k = h.cmd("CHECK").split()
            evs.append(("check", sorted(dead | zombie), int(k[1]), int(k[2]), int(k[3]), ents(k[4:])))

        def shm(kind, sid, tid, idx):
            h.cmd("%s %d %d %d" % (kind, sid, tid, idx))
            evs.append(("shm", kind, sid, tid, idx))

        def shl():
            k = h.cmd("SHL").split()
            evs.append(("shl", ents(k[1:])))

        def drop(mode):
            k = h.cmd("DROP %d" % mode).split()
            evs.append(("drop", mode, int(k[1]), ents(k[2:])))

        if witness:                 # the former fork window: FORK_START, no FORK_END, every task dead
            msg("TASK_START", p0, p0)
            msg("FORK_START", p0, 0)
            msg("TASK_END", p0, p0)
        else:
            if rng.random() < 0.5:
                # exec in a task: the old image's buffer is still announced (no REC_END), the new image announces
                # its first buffer, then TASK_START for the known tid: flush_old_shmem must take the OLD buffer
                t = rng.choice(kids)
                msg("TASK_START", p0, t)
                sid1, sid2 = rng.randrange(1, 1 << 30), rng.randrange(1, 1 << 30)
                shm("RSTART", sid1, t, 0)
                if rng.random() < 0.5:
                    shm("REND", sid1, t, 0)
                    shm("RSTART", sid1, t, 1)
                if rng.random() < 0.5:
                    shm("RSTART", sid1, rng.choice(kids), 0)        # another thread's buffer
                shm("RSTART", sid2, t, 0)
                shl()
                msg("TASK_START", p0, t)
                shl()
            for _ in range(rng.randrange(6, 26)):
                x = rng.random()
                anyp = rng.choice(kids + ghost)
                if pending_fork and x < 0.35:
                    pp = pending_fork.pop(0)
                    msg("FORK_END", pp if rng.random() < 0.7 else 1, anyp)     # ppid 1: the daemon() fallback
                elif x < 0.22:
                    msg("TASK_START", p0, anyp)
                elif x < 0.36:
                    msg("TASK_END", p0, anyp)
                elif x < 0.48:
                    msg("FORK_START", rng.choice(kids), 0)
                    pending_fork.append(evs[-1][2])
                elif x < 0.52:
                    msg("FINISH", 0, 0)
                elif x < 0.60:
                    h.cmd("SIGCHLD %d" % anyp)
                    evs.append(("sig", anyp))
                elif x < 0.72 and alive:
                    k = rng.choice(sorted(alive))
                    h.cmd("KILL %d" % k)
                    alive.discard(k)
                    zombie.add(k)
                elif x < 0.80 and zombie:
                    k = rng.choice(sorted(zombie))
                    h.cmd("REAP %d" % k)
                    zombie.discard(k)
                    dead.add(k)
                elif x < 0.90:
                    drop(rng.choice([0, 0, 2, 1]))
                else:
                    check()
            # some FORK_STARTs keep their FORK_END (fork() failed / child died early)
            while pending_fork and rng.random() < 0.5:
                msg("FORK_END", pending_fork.pop(0), rng.choice(kids))
        for k in sorted(alive):
            h.cmd("KILL %d" % k)
            zombie.add(k)
        check()
        drop(1)
        check()
        return evs
    finally:
        h.close()


def coq_lev(e):
    def z(n):
        return "(%d)%%Z" % n
    if e[0] == "msg":
        _, name, pid, tid = e
        m = {"TASK_START": "TaskStart %s %s" % (z(pid), z(tid)), "TASK_END": "TaskEnd %s" % z(tid),
             "FORK_START": "ForkStart %s" % z(pid), "FORK_END": "ForkEnd %s %s" % (z(pid), z(tid)),
             "FINISH": "Finish"}[name]
        return "LMsg (%s)" % m
    if e[0] == "sig":
        return "LSig %s" % z(e[1])
    if e[0] == "shm":
        _, kind, sid, tid, idx = e
        return "LMsg (%s %s %s %s)" % ("RecStart" if kind == "RSTART" else "RecEnd", z(sid), z(tid), z(idx))
    if e[0] == "shl":
        return "LShm [%s]" % "; ".join("(%s, %s, %s)" % (z(a), z(b), z(c)) for a, b, c in e[1])
    if e[0] == "drop":
        _, mode, ret, ents = e
        return "LDrop %s %s [%s]" % (coq.coq_bool(mode == 1), coq.coq_bool(ret),
                                      "; ".join("(%s, %s, %s)" % (z(p), z(t), coq.coq_bool(x)) for p, t, x in ents))
    _, dead, ret, cex, fin, ents = e
    return "LCheck [%s] %s %s %s [%s]" % (
        "; ".join(z(d) for d in dead), coq.coq_bool(ret), coq.coq_bool(cex), coq.coq_bool(fin),
        "; ".join("(%s, %s, %s)" % (z(p), z(t), coq.coq_bool(x)) for p, t, x in ents))


def eval_live(ctx, hists, name="cases_live"):
    defs = "Definition hists : list (list lev) := [\n%s\n].\n" % ";\n".join(
        "[" + "; ".join(coq_lev(e) for e in h) + "]" for h in hists)
    res = coq.run_cases(ctx, name, PRE, defs, [
        ("mismatch", "bad_indices (fun h => live_agrees h (rs0 [])) hists 0"),
        ("violations", "bad_indices (fun h => ok_live h && last_check_true h false) hists 0"),
    ])
    if res is None:
        return None
    return {k: coq.parse_nat_list(v) for k, v in res.items()}


def run_live(ctx, rec_exe):
    MC = msg_consts()
    hists = []
    d = os.path.join(ctx.scratch, "live")
    n = ctx.n(40, 600)
    for i in range(n + 1):
        witness = (i == 0)
        try:
            evs = run_live_case(rec_exe, os.path.join(d, "h%d" % (i % 4)), ctx.rng, MC, witness=witness)
        except RuntimeError as ex:
            ctx.broken("liveness harness failed: %s" % ex)
            continue
        hists.append(evs)
        tags = ["live:fork-start-without-fork-end,all-dead(former-fork-window)"] if witness else ["live:history"]
        if any(e[0] == "shl" for e in evs):
            tags.append("live:exec(two-sessions-in-one-tid,flush_old_shmem)")
        if any(e[0] == "drop" and e[1] == 1 and e[2] == 1 for e in evs):
            tags.append("live:pending-fork-dropped")
        if any(e[0] == "drop" and e[1] != 1 for e in evs):
            tags.append("live:drop-refused(pipe-has-writer-or-data)")
        if any(e[0] == "msg" and e[1] == "FORK_END" and e[2] == 1 for e in evs):
            tags.append("live:fork-end-daemon-fallback")
        if any(e[0] == "msg" and e[1] == "FINISH" for e in evs):
            tags.append("live:finish")
        if any(e[0] == "check" and e[2] == 1 for e in evs):
            tags.append("live:all-exited")
        ctx.case(key=("live", repr(evs)), tags=tags, size=len(evs),
                 sample={"liveness_history": evs[:12]} if i == 1 else None)
    res = eval_live(ctx, hists)
    if res is None:
        return
    live_verdict(ctx, hists, res)


def live_verdict(ctx, hists, res):
    for i in res["violations"][:3]:
        ctx.violation("C04 violated (recorder liveness): a dead task is not marked / a pending fork is not given up "
                      "on an empty pipe without writer / `all exited` is not answered when every task is dead",
                      {"line": "live", "history": hists[i]}, True)
    if res["mismatch"] and not res["violations"]:
        i = res["mismatch"][0]
        ctx.violation("model and implementation of the recorder's task bookkeeping disagree (%d histories); the "
                      "property checker accepts the implementation's answers" % len(res["mismatch"]),
                      {"line": "live", "correspondence": "C04.Model handle/sigchld/check_tid_list vs cmds/record.c",
                       "first_disagreement": hists[i]}, False)
    ctx.extra["live_disagreements"] = len(res["mismatch"])


# ------------------------------------------------------------------ (C) end to end
MAXEV = 4096
HOWS = {"sigkill": 0, "segv": 1, "abort": 2, "_exit": 3, "execv": 4, "exit": 5, "sigusr1": 6, "sigterm": 7, "sigfpe": 8,
        "none": 9, "exec_fail": 10, "fork": 11, "fork_parent_killed": 12, "fork_child_killed": 13, "loop": 14,
        "fork_child_exec": 15}

PROG_HEAD = r"""
#define _GNU_SOURCE
#include <stdio.h>
#include <stdlib.h>
#include <string.h>
#include <unistd.h>
#include <signal.h>
#include <fcntl.h>
#include <pthread.h>
#include <sys/mman.h>
#include <sys/syscall.h>
#define NOI __attribute__((no_instrument_function))
#define MAXEV %(maxev)d
#define NTH %(nth)d
struct tlog { volatile unsigned tid; volatile unsigned n; volatile unsigned ev[MAXEV]; };
static struct tlog *L;
static __thread struct tlog *my;
static int kill_th = -1, kill_at = -1, how = 9;
static volatile int quiet;
static char *self_argv[6];
NOI static void die(void)
{
	switch (how) {
	case 0: kill(getpid(), SIGKILL); break;
	case 1: *(volatile int *)0 = 1; break;
	case 2: abort(); break;
	case 3: _exit(3); break;
	case 4: execv(self_argv[0], self_argv); break;        /* the same traced program, in the same task */
	case 5: exit(4); break;
	case 6: raise(SIGUSR1); break;                       /* --signal SIGUSR1@finish: the program goes on */
	case 7: kill(getpid(), SIGTERM); break;
	case 8: raise(SIGFPE); break;
	case 10: { char *a[] = { "/nonexistent/c04-prog", 0 }; execv(a[0], a); } break;   /* fails: the program goes on */
	case 11: case 12: case 13: {
		pid_t p = fork();
		kill_th = -1;                                /* once */
		if (p == 0) {                                /* the child goes on in its own log slot */
			my = &L[NTH + 1]; my->n = 0; my->tid = syscall(SYS_gettid);
			if (how == 13) kill(getpid(), SIGKILL);
		}
		else if (p > 0 && how == 12)
			kill(getpid(), SIGKILL);
		break;
	}
	case 15: {                                           /* fork, the child exec()s the traced program at once */
		pid_t p = fork();
		kill_th = -1;
		if (p == 0) {
			my = &L[NTH + 1]; my->n = 0; my->tid = syscall(SYS_gettid);
			execv(self_argv[0], self_argv);
			_exit(9);
		}
		break;
	}
	}
}
NOI static void LOG(int x, int k)
{
	struct tlog *t = my;
	unsigned n;
	if (!t || quiet) return;
	n = t->n;
	if (n >= MAXEV) return;
	t->ev[n] = x * 256 + k;
	t->n = n + 1;
	if (t == &L[kill_th] && (int)n == kill_at) die();
}
NOI static void attach(int i) { my = &L[i]; my->tid = syscall(SYS_gettid); }
"""

PROG_TAIL = r"""
static void *worker(void *arg)
{
	long i = (long)arg;
	attach(i);
	do { root(i); if (how == 14) usleep(2000); } while (how == 14);
	return 0;
}
int main(int argc, char **argv)
{
	pthread_t th[NTH + 1];
	long i;
	int fd = open(argv[1], O_RDWR | O_CREAT | O_TRUNC, 0600);
	if (fd < 0 || ftruncate(fd, sizeof(struct tlog) * (NTH + 2)) < 0) return 9;
	L = mmap(0, sizeof(struct tlog) * (NTH + 2), PROT_READ | PROT_WRITE, MAP_SHARED, fd, 0);
	kill_th = atoi(argv[2]); kill_at = atoi(argv[3]); how = atoi(argv[4]);
	if (argc >= 9) {	/* second stage after execv: <log2> <th2> <at2> <how2> */
		self_argv[0] = argv[0]; self_argv[1] = argv[5]; self_argv[2] = argv[6];
		self_argv[3] = argv[7]; self_argv[4] = argv[8]; self_argv[5] = 0;
	}
	else {
		self_argv[0] = "/bin/true"; self_argv[1] = 0;
	}
	attach(0);
	if (how == 14) quiet = 1;                            /* run until killed from outside; nothing is logged */
	for (i = 1; i <= NTH; i++) pthread_create(&th[i], 0, worker, (void *)i);
	do { root(0); if (how == 14) usleep(2000); } while (how == 14);
	for (i = 1; i <= NTH; i++) pthread_join(th[i], 0);
	root(0);
	return 0;
}
"""


def gen_program(rng, nth, big):
    nf = rng.randrange(4, 9)
    body = [PROG_HEAD % {"maxev": MAXEV, "nth": nth}]
    for k in range(nf):
        body.append("void f%d(int d);" % k)
    for k in range(nf):
        callees = [rng.randrange(k + 1, nf) for _ in range(rng.randrange(0, 3))] if k + 1 < nf else []
        if rng.random() < 0.3:
            callees.append(k)                 # recursion (bounded by d)
        calls = " ".join("f%d(d - 1);" % c for c in callees)
        rep = rng.choice([1, 2, 2, 3]) if big else 1
        body.append("void f%d(int d) { int i; LOG(0, %d); if (d > 0) for (i = 0; i < %d; i++) { %s } LOG(1, %d); }"
                    % (k, k, rep, calls, k))
    roots = ["f%d(%d);" % (rng.randrange(0, max(1, nf // 2)), rng.randrange(3, 7) if big else rng.randrange(2, 4))
             for _ in range(rng.randrange(1, 4))]
    body.append("NOI static void root(long i) { %s if (i & 1) f%d(2); }" % (" ".join(roots), rng.randrange(nf)))
    body.append(PROG_TAIL)
    return nf, "\n".join(body)


def build_prog(work, pi, src, nth, nf):
    c = os.path.join(work, "p%d.c" % pi)
    open(c, "w").write(src)
    exe = os.path.join(work, "p%d" % pi)
    sh(["gcc", "-pg", "-O0", "-no-pie", "-pthread", "-o", exe, c], check=True)
    full = os.path.join(work, "p%d.full" % pi)
    sh(["timeout", "20", exe, full, "-1", "-1", "9"], check=True, cwd=work)      # (-pg: gmon.out goes to cwd)
    return {"exe": exe, "nth": nth, "nf": nf, "ftab": func_table(exe, nf), "full": read_log(full, nth),
            "src": src, "id": pi}


def read_log(path, nth):
    b = open(path, "rb").read()
    sz = 8 + 4 * MAXEV
    logs = []
    for i in range(nth + 2):
        if (i + 1) * sz > len(b):
            break
        tid, n = struct.unpack_from("<II", b, i * sz)
        evs = struct.unpack_from("<%dI" % min(n, MAXEV), b, i * sz + 8)
        logs.append((tid, [(e >> 8, e & 255) for e in evs]))
    return logs


def func_table(exe, nf):
    rc, out, _ = sh(["nm", "-S", exe], check=True)
    tab = {}
    for l in out.splitlines():
        k = l.split()
        if len(k) == 4 and re.fullmatch(r"f\d+", k[3]):
            tab[int(k[3][1:])] = (int(k[0], 16), int(k[1], 16))
    return [tab[i] for i in range(nf)]


E2E_TIMEOUTS = []


def clean_shm(data):
    n = 0
    for m in glob.glob(os.path.join(data, "sid-*.map")):
        for f in glob.glob("/dev/shm/uftrace-%s-*" % os.path.basename(m)[4:20]):
            try:
                os.unlink(f)
                n += 1
            except OSError:
                pass
    return n


def e2e_run(uft, objdir, prog, work, idx, case):
    """one traced run that ends the way `case` says; returns a dict of observations"""
    if len(E2E_TIMEOUTS) >= 3:
        return {"skipped": True}          # record hangs: three witnesses are enough
    d = os.path.join(work, "r%d" % idx)
    shutil.rmtree(d, ignore_errors=True)
    os.makedirs(d)
    data, logf = os.path.join(d, "data"), os.path.join(d, "log")
    cmd = ["timeout", "-s", "KILL", "20", uft, "record", "--no-pager", "--no-event", "--libmcount-path=" + objdir,
           "-d", data] + case["opts"] + [prog["exe"], logf, str(case["th"]), str(case["at"]), str(HOWS[case["how"]])]
    st2 = case.get("stage2")
    if st2:
        cmd += [logf + "2", str(st2["th"]), str(st2["at"]), str(HOWS[st2["how"]])]
    t0 = time.time()
    if case.get("async_kill") is not None:
        p = async_kill_run(cmd, d, os.path.basename(prog["exe"]), case["async_kill"])
    else:
        p = subprocess.run(cmd, capture_output=True, text=True, cwd=d)
    ob = {"rc": p.returncode, "wall": time.time() - t0, "stderr": (p.stderr or "")[-300:]}
    if p.returncode in (124, 137, -9):
        ob["timeout"] = True
        E2E_TIMEOUTS.append(idx)
        ob["shm_left"] = clean_shm(data)           # the killed recorder left its shm objects
        shutil.rmtree(d, ignore_errors=True)
        return ob
    ob["files"] = sorted(os.listdir(data)) if os.path.isdir(data) else []
    ob["logs"] = read_log(logf, prog["nth"]) if os.path.exists(logf) else []
    ob["logs2"] = read_log(logf + "2", prog["nth"]) if (st2 and os.path.exists(logf + "2")) else []
    ob["dat"] = {}
    for tid, _ in ob["logs"] + ob["logs2"]:
        f = os.path.join(data, "%d.dat" % tid)
        ob["dat"][tid] = open(f, "rb").read() if (tid and os.path.exists(f)) else b""
    for f in ob["files"]:                  # data files of tasks the program did not log (none expected)
        m = re.fullmatch(r"(\d+)\.dat", f)
        if m and int(m.group(1)) not in ob["dat"]:
            ob["dat"][int(m.group(1))] = open(os.path.join(data, f), "rb").read()
    ob["analysis"] = {}
    for c in (["replay"], ["report"], ["dump"]):
        if c[0] == "report" and case.get("light"):
            continue                       # (quick tier: `report` on every second run only)
        rc, out, err = sh(["timeout", "60", uft] + c + ["--no-pager", "-d", data], timeout=70)
        ob["analysis"][c[0]] = (rc, (err or "")[-200:])
        if c[0] == "dump" and rc == 0:
            ob["dump"] = parse_dump(out)
    ob["info_tids"], ob["task_tids"], ob["nsess"] = read_task_lists(data)
    ob["shm_left"] = clean_shm(data)
    shutil.rmtree(d, ignore_errors=True)
    return ob


def async_kill_run(cmd, d, exe_name, delay_ms):
    """start `uftrace record`, wait for the tracee to run its own image, SIGKILL it from outside after delay_ms"""
    p = subprocess.Popen(cmd, stdout=subprocess.PIPE, stderr=subprocess.PIPE, text=True, cwd=d)
    # cmd[0..2] = timeout -s KILL 20: the recorder is timeout's child, the tracee the recorder's
    victim, t0 = None, time.time()
    while victim is None and time.time() - t0 < 10 and p.poll() is None:
        try:
            kids = open("/proc/%d/task/%d/children" % (p.pid, p.pid)).read().split()
            for k in kids:
                for g in open("/proc/%s/task/%s/children" % (k, k)).read().split():
                    if open("/proc/%s/comm" % g).read().strip() == exe_name[:15]:
                        victim = int(g)
        except OSError:
            pass
        if victim is None:
            time.sleep(0.002)
    # in scope is a kill at or after the first traced event: wait until the recorder has seen the session
    # (a tracee that dies before libmcount finished starting up leaves no maps / task list: `record` then ends
    # with "cannot find map files" - before the first traced event, outside the property's quantifier)
    data = cmd[cmd.index("-d") + 1]
    t1 = time.time()
    while victim is not None and time.time() - t1 < 5 and p.poll() is None:
        try:
            if os.path.getsize(os.path.join(data, "task.txt")) > 0:
                break
        except OSError:
            pass
        time.sleep(0.0005)
    if victim is not None:
        time.sleep(delay_ms / 1000.0)
        try:
            os.kill(victim, 9)
        except OSError:
            pass
    try:
        out, err = p.communicate(timeout=40)
    except subprocess.TimeoutExpired:
        p.kill()
        out, err = p.communicate()
    p.stdout_text, p.stderr = out, err
    return p


def parse_dump(out):
    """`uftrace dump` text -> {tid: [(0 entry | 1 exit, addr, depth), ...]}"""
    res = {}
    for l in out.splitlines():
        m = re.match(r"\s*[\d.]+\s+(\d+): \[(entry|exit )\] .*\(([0-9a-f]+)\) depth: (\d+)", l)
        if m:
            res.setdefault(int(m.group(1)), []).append((0 if m.group(2) == "entry" else 1, int(m.group(3), 16), int(m.group(4))))
    return res


def read_task_lists(data):
    info_tids, task_tids, nsess = set(), set(), 0
    try:
        for l in open(os.path.join(data, "info"), "rb").read().split(b"\n"):
            if l.startswith(b"taskinfo:tids="):
                info_tids = set(int(x) for x in l[14:].decode().split(",") if x.strip())
        for l in open(os.path.join(data, "task.txt")).read().splitlines():
            if l.startswith("SESS"):
                nsess += 1
            m = re.match(r"TASK .* tid=(\d+) ", l + " ")
            if m:
                task_tids.add(int(m.group(1)))
            m = re.match(r"FORK .* pid=(\d+) ", l + " ")
            if m:
                task_tids.add(int(m.group(1)))
    except OSError:
        pass
    return info_tids, task_tids, nsess


def decode_py(dat):
    """ENTRY/EXIT records of a data file as the dump shows them: (type, addr, depth)"""
    out = []
    for off in range(0, len(dat) - 15, 16):
        t, w = struct.unpack_from("<QQ", dat, off)
        if (w & 3) in (0, 1):
            out.append((w & 3, w >> 16, (w >> 6) & 0x3ff))
    return out


def coq_ecase(ftab, nt, maxd, log1, log2, dat, crash1, crash2, nest, free=False):
    def evs(l):
        return "[" + "; ".join("(%d, %d)" % e for e in l) + "]%N"
    return ("{| e_ftab := [%s]%%N; e_nt := %s; e_maxd := %d; e_log1 := %s; e_log2 := %s; e_bytes := %s; "
            "e_crash1 := %s; e_crash2 := %s; e_nest := %s; e_free := %s |}" % (
                "; ".join("(%d, %d)" % t for t in ftab), coq_bytes(nt), maxd, evs(log1), evs(log2),
                coq_bytes(dat), coq.coq_bool(crash1), coq.coq_bool(crash2), coq.coq_bool(nest), coq.coq_bool(free)))


def run_e2e(ctx, objdir, out=None):
    """generate programs, do the traced runs, judge; with `out` (quick tier: in a side thread, next to the store-level
    ties) only the runs are done here and the caller judges later"""
    import random
    rng = random.Random(ctx.subseed("e2e"))
    del E2E_TIMEOUTS[:]
    uft = os.path.join(objdir, "uftrace")
    work = os.path.join(ctx.scratch, "e2e")
    os.makedirs(work)
    progs = []
    for pi in range(ctx.n(3, 9)):
        nth = [0, 2, 1, 3][pi % 4]
        big = (pi % 3 == 2)
        for attempt in range(40):
            nf, src = gen_program(rng, nth, big)
            c = os.path.join(work, "p%d.c" % pi)
            open(c, "w").write(src)
            exe = os.path.join(work, "p%d" % pi)
            sh(["gcc", "-pg", "-O0", "-no-pie", "-pthread", "-o", exe, c], check=True)
            full = os.path.join(work, "p%d.full" % pi)
            sh(["timeout", "20", exe, full, "-1", "-1", "9"], check=True, cwd=work)      # (-pg: gmon.out goes to cwd)
            logs = read_log(full, nth)
            most = max(len(l) for _, l in logs)
            if (300 <= most <= 480) if big else (6 <= most <= 250):
                break
        progs.append({"exe": exe, "nth": nth, "nf": nf, "ftab": func_table(exe, nf), "full": logs,
                      "src": src, "id": pi, "big": big})
    cases = []
    hows = ["sigkill", "segv", "abort", "_exit", "execv", "exit", "finish", "sigfinish",
            "sigterm", "sigfpe", "exec_untraced", "exec_fail", "fork", "fork_parent_killed", "fork_child_killed", "async_kill",
            "fork_child_exec"]
    per = ctx.n(17, 34)
    for pr in progs:
        for j in range(per):
            how = hows[j % len(hows)]
            if how in ("execv", "async_kill") and pr.get("big"):
                how = "sigkill"         # (the two-image split check is quadratic in the number of records)
            th = rng.randrange(pr["nth"] + 1)
            total = len(pr["full"][th][1])
            if total == 0:
                th, total = 0, len(pr["full"][0][1])
            at = rng.choice([0, 1, total - 1, total - 2, rng.randrange(total), rng.randrange(total)]) % max(total, 1)
            opts = rng.choice([[], [], ["--no-libcall"], ["-b", "4k"], ["-b", "4k", "--no-libcall"]])
            case = {"prog": pr["id"], "how": how, "th": th, "at": at, "opts": list(opts), "nt": [], "maxd": 1 << 20}
            fl = rng.random()
            if how in ("segv", "abort", "exit", "sigkill") and fl < 0.7:
                # record-time filters: the innermost return-stack frame at the crash may be a filtered-out one
                # (the -N function itself; abort()/kill() called through the PLT beyond the -D limit)
                if fl < 0.4:
                    k = pr["full"][th][1][at][1]              # the function that is logging when the process dies
                    case["nt"] = [k]
                    case["opts"] = [o for o in opts if o != "--no-libcall"] + ["-N", "f%d" % k]
                else:
                    case["maxd"] = rng.randrange(1, 4)
                    case["opts"] = [o for o in opts if o != "--no-libcall"] + ["-D", str(case["maxd"])]
            if how == "execv":
                # the program exec()s itself (same task, second session); the second image runs to the end, is
                # killed or crashes
                h2 = rng.choice(["none", "segv", "sigkill", "abort", "none"])
                case["th"] = 0
                t0n = len(pr["full"][0][1])
                case["at"] = rng.randrange(t0n) if t0n else 0
                case["stage2"] = {"how": h2, "th": 0 if h2 != "none" else -1,
                                  "at": rng.randrange(t0n) if (t0n and h2 != "none") else -1}
            if how == "finish":
                k = pr["full"][th][1][at][1]
                case.update({"how": "none", "finish": k, "th": -1, "at": -1, "opts": opts + ["-T", "f%d@finish" % k]})
            if how == "sigfinish":
                # signal trigger: the handler only sets the finish flag; every thread stops recording at its next hook
                case.update({"how": "sigusr1", "sigfinish": True, "opts": opts + ["--signal", "SIGUSR1@finish"]})
            if how == "exec_untraced":
                case.update({"how": "execv", "kind": "exec_untraced", "th": 0,
                             "at": rng.randrange(max(1, len(pr["full"][0][1])))})      # no stage 2: /bin/true
            if how in ("fork", "fork_parent_killed", "fork_child_killed"):
                case.update({"kind": how, "th": 0, "at": rng.randrange(max(1, len(pr["full"][0][1])))})
            if how == "fork_child_exec":
                # fork + exec, the common way: the child's tid is known to the recorder through FORK_START/FORK_END (with
                # the PARENT's pid), its first buffer is announced, then the new image's REC_START and TASK_START come
                # (flush_old_shmem); small buffers make the new image switch buffers
                h2 = rng.choice(["none", "segv", "sigkill", "abort"])
                t0n = len(pr["full"][0][1])
                case.update({"kind": how, "th": 0, "at": rng.randrange(max(1, t0n)),
                             "opts": rng.choice([["-b", "4k"], ["-b", "4k"], []]),
                             "stage2": {"how": h2, "th": 0 if h2 != "none" else -1,
                                        "at": rng.randrange(t0n) if (t0n and h2 != "none") else -1}})
            if how == "async_kill":
                # SIGKILL from outside at an arbitrary instant (not at a traced event) while every thread loops
                case.update({"how": "loop", "kind": "async_kill", "th": -1, "at": -1,
                             "async_kill": rng.choice([0, 1, 2, 3]), "opts": rng.choice([[], ["-b", "4k"], ["-b", "4k"]])})
            case["light"] = (not ctx.thorough()) and len(cases) % 2 == 1
            cases.append(case)
    t0 = time.time()
    with concurrent.futures.ThreadPoolExecutor(max_workers=6) as ex:
        obs = list(ex.map(lambda ic: e2e_run(uft, objdir, progs[ic[1]["prog"]], work, ic[0], ic[1]), enumerate(cases)))
    ctx.log("end-to-end: %d traced runs in %.1fs" % (len(cases), time.time() - t0))
    slow = sorted(((round(ob.get("wall", 0), 1), c.get("kind") or c["how"], c["opts"], progs[c["prog"]].get("big")) for c, ob in zip(cases, obs)), reverse=True)[:8]
    ctx.log("slowest record runs: %s" % (slow,))
    if out is not None:
        out["res"] = (progs, cases, obs)
        return
    e2e_judge(ctx, progs, cases, obs)


def run_e2e_side(ctx, objdir, out):
    try:
        run_e2e(ctx, objdir, out)
    except Exception as ex:          # reported by the main thread
        out["error"] = "%s: %s" % (type(ex).__name__, str(ex)[:400])


def e2e_judge(ctx, progs, cases, obs):
    ecases, owner = [], []
    nviol = {}

    def viol(kind, what, rj):          # at most three replay files per kind of failure
        nviol[kind] = nviol.get(kind, 0) + 1
        if nviol[kind] <= 3:
            ctx.violation(what, rj, True)
    for ci, (case, ob) in enumerate(zip(cases, obs)):
        pr = progs[case["prog"]]
        rj = {"line": "e2e", "case": case, "program": pr["src"]}
        how = "finish" if "finish" in case else "sigfinish" if case.get("sigfinish") else case.get("kind") or case["how"]
        tags = ["e2e:how=" + how, "e2e:threads=%d" % (pr["nth"] + 1)] + ["e2e:opt=" + o for o in case["opts"] if o.startswith("-") and o not in ("-T", "--signal")]
        if ob.get("skipped"):
            continue
        if ob.get("timeout"):
            viol("hang", "C04 violated: `uftrace record` did not terminate after the tracee %s" % how, rj)
            ctx.case(key=("e2e", ci, repr(case)), tags=tags + ["e2e:record-timeout"])
            continue
        need = ["info", "task.txt"]
        files = ob["files"]
        missing = [n for n in need if n not in files]
        if not any(f.startswith("sid-") and f.endswith(".map") for f in files):
            missing.append("sid-*.map")
        if not any(f.endswith(".sym") for f in files):
            missing.append("*.sym")
        if missing:
            viol("dir", "C04 violated: data directory incomplete after the tracee %s: missing %s" % (how, missing),
                 dict(rj, files=files, stderr=ob["stderr"]))
        total_bytes = sum(len(v) for v in ob["dat"].values())
        for cmdn, (rc, err) in ob["analysis"].items():
            if rc != 0 and total_bytes == 0 and "No data available" in err:
                # not a single record reached a data file: the readers refuse a directory without *.dat by
                # design (utils/data-file.c open_data_file: "check there are data files actually")
                if "e2e:empty-trace(no-dat,readers-say-no-data)" not in tags:
                    tags.append("e2e:empty-trace(no-dat,readers-say-no-data)")
                continue
            if rc != 0:
                viol("reader", "C04 violated: `uftrace %s` rejects the directory left after the tracee %s (rc=%d): %s"
                     % (cmdn, how, rc, err), rj)
        nrec = 0
        st2 = case.get("stage2")
        per_tid = {}
        for ti, (tid, log) in enumerate(ob["logs"]):
            if tid:
                per_tid.setdefault(tid, {"l1": [], "l2": [], "ti": ti, "c1": False, "c2": False, "free": False})
                per_tid[tid]["l1"] = pr["full"][ti][1] if how in ("finish", "sigfinish") else log
                per_tid[tid]["c1"] = how in ("segv", "abort") and ti == case["th"]
                if how == "async_kill":
                    # every thread repeats its root() for ever: the reference is that sequence, repeated
                    one = pr["full"][ti][1]
                    if ti == 0:
                        one = one[:len(one) // 2]          # (the dry run's main thread ran root(0) twice)
                    need = len(ob["dat"].get(tid, b"")) // 16 + 1
                    per_tid[tid]["l1"] = one * (need // max(1, len(one)) + 1) if one else []
                if ti == pr["nth"] + 1:
                    per_tid[tid]["free"] = True            # the forked child starts with inherited open calls
        for ti, (tid, log) in enumerate(ob.get("logs2", [])):
            if tid:
                per_tid.setdefault(tid, {"l1": [], "l2": [], "ti": ti, "c1": False, "c2": False, "free": False})
                per_tid[tid]["l2"] = log
                per_tid[tid]["c2"] = st2["how"] in ("segv", "abort") and ti == st2["th"]
        for tid, pt in sorted(per_tid.items()):
            dat = ob["dat"].get(tid, b"")
            nrec += len(dat) // 16
            ecases.append(coq_ecase(pr["ftab"], case.get("nt", []), case.get("maxd", 1 << 20), pt["l1"], pt["l2"], dat,
                                    pt["c1"], pt["c2"], how not in ("execv", "exec_untraced", "fork_child_exec") and not pt["free"], pt["free"]))
            owner.append((ci, pt["ti"], tid))
        # the task list and the readers' view of every data file
        for tid, dat in sorted(ob["dat"].items()):
            if not dat:
                continue
            if tid not in ob.get("info_tids", ()) or tid not in ob.get("task_tids", ()):
                viol("tasklist", "C04 violated: task list incomplete after the tracee %s: %d.dat exists but tid %d is missing in %s"
                     % (how, tid, tid, "info (taskinfo:tids)" if tid not in ob.get("info_tids", ()) else "task.txt"),
                     dict(rj, info_tids=sorted(ob.get("info_tids", ())), task_tids=sorted(ob.get("task_tids", ()))))
            if "dump" in ob and ob["dump"].get(tid, []) != decode_py(dat):
                viol("dump", "C04 violated: `uftrace dump` does not show the records of %d.dat as they are in the file "
                     "(%d shown, %d in the file) after the tracee %s" % (tid, len(ob["dump"].get(tid, [])), len(decode_py(dat)), how), rj)
        if any(tid not in per_tid for tid, dat in ob["dat"].items() if dat):
            tags.append("e2e:data-file-of-unlogged-task")
        if st2:
            tags.append("e2e:exec-self,second-image-" + st2["how"])
            if any(pt["l1"] and pt["l2"] for pt in per_tid.values()):
                tags.append("e2e:two-sessions-in-one-tid")
        if case.get("nt"):
            tags.append("e2e:dies-inside-N-function")
        if case.get("maxd", 1 << 20) < 100:
            tags.append("e2e:depth-limit")
        if nrec > 254:
            tags.append("e2e:buffer-switched")
        if ob.get("shm_left"):
            tags.append("e2e:shm-objects-left-behind-by-record")
        ctx.extra.setdefault("e2e_records_by_kind", {})
        ctx.extra["e2e_records_by_kind"][how] = ctx.extra["e2e_records_by_kind"].get(how, 0) + nrec
        ctx.case(key=("e2e", pr["src"], repr(case)), nontrivial=nrec > 0, tags=tags, size=nrec,
                 sample={"e2e_case": case, "records": nrec} if ci == 0 else None)
    if not ecases:
        return
    bad = []
    CH = 120                                   # (one coqc per batch: big literal files cost more than linearly)

    def batch(b0):
        defs = "Definition ecases : list ecase := [\n%s\n].\n" % ";\n".join(ecases[b0:b0 + CH])
        return b0, coq.run_cases(ctx, "cases_e2e_%d" % (b0 // CH), PRE, defs, [("violations", "bad_indices ok_e2e ecases 0")])
    with concurrent.futures.ThreadPoolExecutor(max_workers=3) as ex:
        for b0, res in ex.map(batch, range(0, len(ecases), CH)):
            if res is None:
                return
            bad += [b0 + i for i in coq.parse_nat_list(res["violations"])]
    for i in bad[:3]:
        ci, ti, tid = owner[i]
        case, ob = cases[ci], obs[ci]
        how = "finish" if "finish" in case else "sigfinish" if case.get("sigfinish") else case.get("kind") or case["how"]
        ctx.violation("C04 violated (end to end): %d.dat (thread %d) left after the tracee %s is not made of whole records "
                      "forming a prefix of what the thread executed%s" % (
                          tid, ti, how, " / misses open calls of the crashing thread" if how in ("segv", "abort") else ""),
                      {"line": "e2e", "case": case, "program": progs[case["prog"]]["src"], "thread": ti,
                       "log": (ob["logs"][ti][1] if ti < len(ob["logs"]) else [])[-40:],
                       "log_second_image": (ob["logs2"][ti][1] if ti < len(ob.get("logs2", [])) else [])[-40:],
                       "dat_tail_hex": ob["dat"][tid][-160:].hex()}, True)


FORK_FAIL_PROG = r"""
#define _GNU_SOURCE
#include <stdio.h>
#include <stddef.h>
#include <unistd.h>
#include <errno.h>
#include <sys/prctl.h>
#include <sys/syscall.h>
#include <linux/seccomp.h>
#include <linux/filter.h>
int foo(int x) { return x + 1; }
int main(void)
{
	struct sock_filter f[] = {
		BPF_STMT(BPF_LD | BPF_W | BPF_ABS, offsetof(struct seccomp_data, nr)),
		BPF_JUMP(BPF_JMP | BPF_JEQ | BPF_K, __NR_clone, 3, 0),
		BPF_JUMP(BPF_JMP | BPF_JEQ | BPF_K, __NR_fork, 2, 0),
		BPF_JUMP(BPF_JMP | BPF_JEQ | BPF_K, __NR_vfork, 1, 0),
		BPF_JUMP(BPF_JMP | BPF_JEQ | BPF_K, 435 /* clone3 */, 0, 1),
		BPF_STMT(BPF_RET | BPF_K, SECCOMP_RET_ERRNO | EAGAIN),
		BPF_STMT(BPF_RET | BPF_K, SECCOMP_RET_ALLOW),
	};
	struct sock_fprog p = { sizeof(f) / sizeof(f[0]), f };
	foo(1);
	prctl(PR_SET_NO_NEW_PRIVS, 1, 0, 0, 0);
	if (prctl(PR_SET_SECCOMP, SECCOMP_MODE_FILTER, &p)) return 7;
	if (fork() >= 0) return 8;          /* the witness needs a failing fork() */
	foo(2);
	return 0;
}
"""


def fork_fail_e2e(ctx, objdir, out):
    """fork() fails in the tracee (seccomp answers EAGAIN), the program ends normally: FORK_START without
    FORK_END.  An ordinary end-to-end case: `uftrace record` must end, the directory must be complete and
    replay/report/dump must accept it (runs in a side thread)."""
    try:
        d = os.path.join(ctx.scratch, "forkfail")
        os.makedirs(d, exist_ok=True)
        src, exe, data = os.path.join(d, "fk.c"), os.path.join(d, "fk"), os.path.join(d, "data")
        open(src, "w").write(FORK_FAIL_PROG)
        sh(["gcc", "-pg", "-o", exe, src], check=True)
        rc0, _, _ = sh(["timeout", "10", exe], cwd=d)
        if rc0 != 0:
            out["skipped"] = "seccomp program does not work here (rc=%d)" % rc0
            return
        uft = os.path.join(objdir, "uftrace")
        t0 = time.time()
        p = subprocess.run(["timeout", "-s", "KILL", "15", uft, "record", "--no-pager", "--no-event",
                            "--libmcount-path=" + objdir, "-d", data, exe], capture_output=True, text=True, cwd=d)
        out["rc"] = p.returncode
        out["wall"] = round(time.time() - t0, 2)
        out["hang"] = p.returncode in (137, -9, 124)
        out["files"] = sorted(os.listdir(data)) if os.path.isdir(data) else []
        out["analysis"] = {}
        if not out["hang"]:
            for c in ("replay", "report", "dump"):
                rc, o, err = sh(["timeout", "60", uft, c, "--no-pager", "-d", data], timeout=70)
                out["analysis"][c] = (rc, (err or "")[-200:], len(o or ""))
        clean_shm(data)
    except Exception as ex:           # reported by the caller
        out["error"] = repr(ex)


def fork_fail_verdict(ctx, fw):
    ctx.extra["fork_fail_e2e"] = fw
    rj = {"line": "forkfail", "program": FORK_FAIL_PROG}
    if fw.get("error"):
        ctx.broken("failing-fork end-to-end case failed to run: %s" % fw["error"])
        return
    if fw.get("skipped"):
        ctx.log("failing-fork end-to-end case skipped:", fw["skipped"])
        return
    ctx.case(key=("e2e", "forkfail"), tags=["e2e:fork-fails-in-tracee(FORK_START-without-FORK_END)"])
    if fw.get("hang"):
        ctx.violation("C04 violated: `uftrace record` did not terminate after fork() failed in the tracee "
                      "(FORK_START without FORK_END; killed after 15 s)", rj, True)
        return
    files = fw["files"]
    missing = [n for n in ("info", "task.txt") if n not in files]
    if not any(f.startswith("sid-") and f.endswith(".map") for f in files):
        missing.append("sid-*.map")
    if not any(f.endswith(".sym") for f in files):
        missing.append("*.sym")
    if missing:
        ctx.violation("C04 violated: data directory incomplete after fork() failed in the tracee: missing %s" % missing,
                      dict(rj, files=files), True)
    for c, (rc, err, n) in fw["analysis"].items():
        if rc != 0:
            ctx.violation("C04 violated: `uftrace %s` rejects the directory left after fork() failed in the tracee "
                          "(rc=%d): %s" % (c, rc, err), rj, True)


# ------------------------------------------------------------------ entry points
def common_meta(ctx):
    ctx.rule = ("(A) store level: a case = one scripted call history (1-27 hook calls, payload specs, buffer "
                "capacity 32..4080, recorder catch-up points) + one way of dying (SIGKILL after the e-th visible "
                "store of the last hook call, SIGSEGV, abort, _exit, exit); distinct = distinct scripts; non-trivial = "
                "the data file is not empty.  (B) liveness: a case = one message/process history.  (C) end to end: a "
                "case = one generated -pg program + kill point + way of dying")
    ctx.trusted = [
        "Coq 8.16.1 kernel incl. vm_compute; no axioms (Print Assumptions: closed under the global context)",
        "hand-written model coq/theories/C04/Model.v of libmcount/record.c (get_shmem_buffer, get_new_shmem_buffer, "
        "record_ret_stack, record_trace_data), libmcount/mcount.c (segv_handler, exit filter), cmds/record.c "
        "(read_record_mmap, record_mmap_file, writer, flush_shmem_list, record_remaining_buffer, tid_list, stop_tracing)",
        "generated constants coq/theories/Gen/Consts.v (record magic, record types, shm flag bits, message numbers)",
        "props/c04.py SINGLE_BUMP = True: the model is run with one size update per record (code since fix 4751e05)",
        "harness/c/c04_rec.c (ptrace driver; #includes cmds/record.c), harness/c/c04_prod.c, props/c04.py "
        "(script generation, payload encoding, log decoding)",
        "Linux ptrace single-stepping, POSIX shm, FIFO and SIGKILL semantics",
    ]
    ctx.assume = [
        "shm allocation never fails and no record is lost (C03 covers LOST); no filters/triggers besides argument "
        "specs, -N functions and the finish / signal triggers (C05); one thread per data file in the model (threads are "
        "exercised end to end only)",
        "a record fits into an empty buffer (the code does not re-check after switching buffers)",
        "stores become visible to the recorder in program order (x86-TSO; the recorder reads after the tracee died)",
        "the kernel delivers POLLHUP / SIGCHLD and /proc/<tid>/stat eventually shows every dead task (oracle `dead`)",
        "kill instants are instruction boundaries observed through (size, RECORDING bit); instants inside one "
        "instruction are not distinguished",
    ]


def run(ctx):
    common_meta(ctx)
    coq.prove(ctx, "C04")
    objdir = build.get_build("plain", ctx.log)
    import threading
    fw = {}
    th = threading.Thread(target=fork_fail_e2e, args=(ctx, objdir, fw))
    th.start()
    e2e_out, th2 = {}, None
    if not ctx.thorough():
        th2 = threading.Thread(target=run_e2e_side, args=(ctx, objdir, e2e_out))
        th2.start()
    try:
        rec_exe, prod_exe, f0 = run_store(ctx, objdir)
        run_multi(ctx, rec_exe, prod_exe, f0)
        run_live(ctx, rec_exe)
    except RuntimeError as ex:       # e.g. the harness no longer compiles against cmds/record.c: keep searching end to end
        ctx.broken("store-level / liveness tie could not run: %s" % str(ex)[:300], str(ex))
    if th2 is None:
        run_e2e(ctx, objdir)
    else:
        th2.join()
        if "res" in e2e_out:
            e2e_judge(ctx, *e2e_out["res"])
        else:
            ctx.broken("end-to-end runs failed: %s" % e2e_out.get("error", "?"))
    th.join()
    fork_fail_verdict(ctx, fw)


def replay(ctx, obj):
    common_meta(ctx)
    coq.prove(ctx, "C04")
    objdir = build.get_build("plain", ctx.log)
    if obj.get("line") == "store":
        j = obj.get("case") or obj.get("first_disagreement")
        c = case_from_json(j)
        rec_exe, prod_exe, f0 = build_store(ctx, objdir)
        work = os.path.join(ctx.scratch, "store")
        os.makedirs(work, exist_ok=True)
        r = run_case(rec_exe, prod_exe, work, c, 0)
        ctx.log("replayed store case: impl", {k: (v.hex() if isinstance(v, bytes) else v) for k, v in r.items()})
        if r.get("error"):
            ctx.broken("store-level harness failed on the replayed case: %s" % r["error"])
            return
        res = eval_store(ctx, [c], [r], f0)
        ctx.case(key="replay", sample=case_json(c, r))
        ctx.log("model expects", (model_obs(ctx, c, r, f0) or "")[:400])
        if res is not None:
            store_verdict(ctx, [c], [r], res, f0)
    elif obj.get("line") == "multi":
        j = obj.get("case") or obj.get("first_disagreement")
        c = {"cap": j["cap"], "args": j["args"], "opss": [[tuple(o) for o in ops] for ops in j["opss"]],
             "acts": [tuple(a) for a in j["acts"]]}
        rec_exe, prod_exe, f0 = build_store(ctx, objdir)
        work = os.path.join(ctx.scratch, "multi")
        os.makedirs(work, exist_ok=True)
        r = run_multi_case(rec_exe, prod_exe, work, c, 0)
        if r.get("error"):
            ctx.broken("two-producer harness failed on the replayed case: %s" % r["error"])
            return
        ctx.case(key="replay", sample=multi_json(c, r))
        res = eval_multi(ctx, [c], [r], f0, "replay_multi")
        if res is not None:
            multi_verdict(ctx, [c], [r], res)
    elif obj.get("line") == "e2e":
        src, case = obj["program"], dict(obj["case"])
        nth = int(re.search(r"#define NTH (\d+)", src).group(1))
        nf = len(re.findall(r"^void f\d+\(int d\);", src, flags=re.M))
        work = os.path.join(ctx.scratch, "e2e")
        os.makedirs(work)
        pr = build_prog(work, 0, src, nth, nf)
        case["prog"] = 0
        del E2E_TIMEOUTS[:]
        for attempt in range(3):            # (scheduling of recorder vs tracee differs from run to run)
            ob = e2e_run(os.path.join(objdir, "uftrace"), objdir, pr, work, attempt, case)
            ctx.log("replayed e2e case:", case, "rc=%s files=%s" % (ob.get("rc"), ob.get("files")))
            e2e_judge(ctx, [pr], [case], [ob])
            if ctx.violations:
                break
    elif obj.get("line") in ("forkfail", "forkwin"):
        fw = {}
        fork_fail_e2e(ctx, objdir, fw)
        ctx.log("failing-fork case:", fw)
        fork_fail_verdict(ctx, fw)
    elif obj.get("line") == "live":
        # real pids differ from run to run: the recorded history is re-judged, and a fresh batch is run
        h = obj.get("history") or obj.get("first_disagreement")
        hist = [tuple(tuple(x) if isinstance(x, list) and e[0] != "check" else x for x in e) for e in h]
        hist = [(e[0], e[1], e[2], e[3], e[4], [tuple(t) for t in e[5]]) if e[0] == "check" else
                (e[0], e[1], e[2], [tuple(t) for t in e[3]]) if e[0] == "drop" else
                (e[0], [tuple(t) for t in e[1]]) if e[0] == "shl" else tuple(e) for e in hist]
        res = eval_live(ctx, [hist], "replay_live")
        ctx.case(key="replay")
        if res is not None:
            live_verdict(ctx, [hist], res)
        rec_exe, _, _ = build_store(ctx, objdir)
        run_live(ctx, rec_exe)
