"""C01 - Tracing never changes what the traced program computes   (partial - see manifest.d/C01.json)

Theorems: coq/theories/Properties_C01.v
  (i)   every x86-64 entry/return stub (GENERATED from arch/x86_64/*.S on every run) keeps the ABI-visible
        registers, xmm0-15, rsp and the caller's memory for all register files / memories / hook behaviours;
  (ii)  the shadow return stack (slot hijack, auto-restore/rehook, trampolines, tail calls, cygprof frames,
        `recover`) sends every return to the real caller, for all call trees;
  (iii) errno wrapper; (iv) the xmm save/restore pair around script / memory-region hooks.
Tie (every run, on /repo's current tree):
  * translator gen/gen_stubs.py (fails loudly on unknown forms) -> Gen/Stubs.v -> the proofs are re-checked;
  * in-process: the real mcount_entry/mcount_exit/__cyg_profile_func_* drive numbered fake slots on generated
    call trees (harness/c/c01_harness.c); every slot snapshot, mtd.idx, returned address and errno flag is
    compared with the model inside Coq and judged by the checker `shadow_ok`;
  * the real mcount_save/restore_arch_context pair on generated xmm contents vs the model + checker `xmm_ok`;
  * the real mcount_entry/mcount_exit wrappers called with chosen xmm0-15 while a libc stand-in they reach
    overwrites every xmm register vs the hook-call contract of Machine.v + checker `hook_xmm_ok`;
  * assumption monitors: objdump of libmcount*.so (no SSE/x87 instruction outside the known sites) and an
    end-to-end differential: generated C programs over ABI signature classes x {-pg, -mfentry,
    -finstrument-functions, -fpatchable-function-entry + -P .} x {-O0,-O2} x record options, traced vs native
    stdout / exit status / per-thread digests.
"""
import concurrent.futures
import hashlib
import json
import os
import re
import shutil
import subprocess

from vf import build, coq
from vf.core import REPO, VERIF, sh
from props import c01_progs as G
from props import c01_scen as SC

HARNESS_SRC = os.path.join(VERIF, "harness/c/c01_harness.c")
RECOVER_FNS = [8, 9, 10, 11]        # f8..f11 carry the `recover` trigger
PLAIN_FNS = [0, 1, 2, 3, 4, 5, 6, 7]
CYG_FNS = [12, 13, 14, 15]
TRIGGER = ";".join("f%d@recover" % k for k in RECOVER_FNS)


# ================================================================ call trees (shadow stack)
class Node:
    __slots__ = ("ra", "h", "kids", "tails", "fn")

    def __init__(self, ra, h, kids, tails, fn):
        self.ra, self.h, self.kids, self.tails, self.fn = ra, h, kids, tails, fn


def gen_tree(rng, shape, maxd=6, budget=24):
    """shape steers the generator at one boundary"""
    counter = [100]
    left = [budget]

    def hook():
        w = {"mixed": "NMMMRCC", "pg": "NMMM", "cyg": "NCCC", "recover": "MMRRN", "tail": "NMMMC",
             "deep": "MMMN", "cygpg": "MCMC", "plt": "NMMPPC", "plttail": "MPMP", "recoverplt": "MRPPCM"}[shape]
        return rng.choice(w)

    def mk(d, allow_tail=True):
        left[0] -= 1
        h = hook()
        fn = rng.choice({"N": PLAIN_FNS, "M": PLAIN_FNS, "R": RECOVER_FNS, "C": CYG_FNS, "P": PLAIN_FNS}[h])
        counter[0] += 1
        n = Node(counter[0], h, [], [], fn)
        if d < maxd and left[0] > 0:
            nk = rng.choice([0, 1, 1, 2, 3] if shape != "deep" else [1, 1, 2])
            for _ in range(nk):
                if left[0] <= 0:
                    break
                n.kids.append(mk(d + 1))
        if allow_tail and left[0] > 0:
            p = {"tail": 0.7, "mixed": 0.3, "recover": 0.3, "pg": 0.25, "plttail": 0.7, "plt": 0.3, "recoverplt": 0.6}.get(shape, 0.1)
            nt = 0
            while rng.random() < p and nt < 3 and left[0] > 0:
                n.tails.append(mk(d, allow_tail=(rng.random() < 0.4)))
                nt += 1
        return n
    return mk(1)


def body(d, n, ops, owner):
    ops.append(("E", n.h, d))
    owner.append(n)
    for k in n.kids:
        ops.append(("P", d + 1, k.ra))
        owner.append(k)
        body(d + 1, k, ops, owner)
        ops.append(("R", d + 1))
        owner.append(k)
    if n.h == "C":
        ops.append(("CX", n.fn, d))
        owner.append(n)
    for t in n.tails:
        body(d, t, ops, owner)


def full(n):
    ops, owner = [("P", 1, n.ra)], [n]
    body(1, n, ops, owner)
    ops.append(("R", 1))
    owner.append(n)
    return ops, owner


def tree_depth(n, d=1):
    return max([d] + [tree_depth(k, d + 1) for k in n.kids] + [tree_depth(t, d) for t in n.tails])


def tree_size(n):
    return 1 + sum(tree_size(k) for k in n.kids) + sum(tree_size(t) for t in n.tails)


def tree_tags(n, tags, parent_hooked=False, in_tail=False):
    if n.tails:
        tags.add("tailchain=%d" % min(len(n.tails), 3))
        for t in n.tails:
            tags.add("tail:%s->%s" % (n.h, t.h))
    if n.h == "P":
        tags.add("plt")
        if any(k.h in "MRP" for k in n.kids):
            tags.add("hooked-under-plt")
    if n.h == "R":
        tags.add("recover")
        if any(k.h in "MR" for k in n.kids):
            tags.add("recover-with-hooked-kid")
    if n.h == "C" and any(k.h in "MR" for k in n.kids):
        tags.add("pg-under-cyg")
    if n.h in "MR" and any(k.h == "C" for k in n.kids):
        tags.add("cyg-under-pg")
    if n.h == "N" and any(k.h in "MR" for k in n.kids):
        tags.add("hooked-under-unhooked")
    if not n.kids and not n.tails:
        tags.add("leaf:%s" % n.h)
    for k in n.kids:
        tree_tags(k, tags)
    for t in n.tails:
        tree_tags(t, tags)


def harness_lines(ops, owner):
    lines = []
    for (o, n) in zip(ops, owner):
        if o[0] == "P":
            lines.append("P %d %d" % (o[1], o[2]))
        elif o[0] == "E":
            if o[1] == "N":
                lines.append("N")
            elif o[1] in "MR":
                lines.append("E %d %d" % (n.fn, o[2]))
            elif o[1] == "P":
                lines.append("PE %d %d" % (n.fn, o[2]))
            else:
                lines.append("CE %d %d" % (n.fn, o[2]))
        elif o[0] == "CX":
            lines.append("CX %d %d" % (o[1], o[2]))
        else:
            lines.append("R %d" % o[1])
    return lines


def coq_hook(h):
    return {"N": "HNone", "M": "(HM false)", "R": "(HM true)", "C": "HC", "P": "HP"}[h]


def coq_tree(n):
    return "(Call %d %s [%s] [%s])" % (n.ra, coq_hook(n.h), "; ".join(coq_tree(k) for k in n.kids),
                                       "; ".join(coq_tree(t) for t in n.tails))


def coq_op(o):
    if o[0] == "P":
        return "OPush %d %d" % (o[1], o[2])
    if o[0] == "E":
        return "OEnter %s %d" % (coq_hook(o[1]), o[2])
    if o[0] == "CX":
        return "OCygExit"
    return "ORet %d" % o[1]


def coq_word(w):
    if w == "T":
        return "Tramp KM"
    if w == "PT":
        return "Tramp KP"
    if w.startswith("r"):
        return "Real %d" % int(w[1:])
    return "Real 999999"           # a wild value: can never agree with the model


def json_tree(n):
    return {"ra": n.ra, "hook": n.h, "fn": n.fn, "kids": [json_tree(k) for k in n.kids],
            "tails": [json_tree(t) for t in n.tails]}


def tree_of_json(j):
    return Node(j["ra"], j["hook"], [tree_of_json(k) for k in j["kids"]], [tree_of_json(t) for t in j["tails"]], j["fn"])


class Harness:
    def __init__(self, ctx, objdir):
        self.ctx = ctx
        self.exe = os.path.join(ctx.scratch, "c01_harness")
        objs = [o for o in build.libmcount_objs(objdir, "") if not o.endswith("/plthook.op")]
        build.cc([HARNESS_SRC] + objs, self.exe, objdir, extra=build.LINK_LIBS + ["-DLIBMCOUNT", "-DC01_WITH_PLT"])
        self.n = 0

    def run(self, lines, nshow, env=None, rev=False):
        self.n += 1
        d = os.path.join(self.ctx.scratch, "c01d%d" % (self.n % 4))
        shutil.rmtree(d, ignore_errors=True)
        os.makedirs(d)
        e = {k: v for k, v in os.environ.items() if not k.startswith("UFTRACE_")}
        e.update({"UFTRACE_DIR": d, "UFTRACE_PATTERN": "simple", "UFTRACE_TRIGGER": TRIGGER,
                  "UFTRACE_BUFFER": str(1 << 20)})
        if env:
            e.update({k: str(v) for k, v in env.items()})
        p = subprocess.run([self.exe, str(nshow)] + (["rev"] if rev else []), input="\n".join(lines) + "\nQUIT\n", env=e,
                           capture_output=True, text=True, timeout=60)
        for f in os.listdir(d):
            if f.startswith("sid-"):
                for s in os.listdir("/dev/shm"):
                    if s.startswith("uftrace-%s-" % f[4:20]):
                        try:
                            os.unlink(os.path.join("/dev/shm", s))
                        except OSError:
                            pass
        return p.returncode, p.stdout.splitlines(), p.stderr


def parse_shadow(tree, ops, owner, out, nshow, env, crashed, err):
    obs, errno_ok = [], []
    for i, line in enumerate(out[:len(ops)]):
        left, _, right = line.partition(" | ")
        k = left.split()
        snap = right.split()
        idx, words = int(snap[0]), snap[1:nshow + 1]
        u = "UNone"
        if k[0] == "E":
            if int(k[1]) != 0:
                owner[i].h = "N"             # not hooked: depth limit / filter
            errno_ok.append(k[2] == "1")
        elif k[0] == "PE":
            errno_ok.append(k[2] == "1")
        elif k[0] in ("CE", "CX"):
            errno_ok.append(k[1] == "1")
        elif k[0] == "R":
            u = "URet %d (%s)" % (int(k[1]), coq_word(k[2]))
            errno_ok.append(k[3] == "1")
        obs.append((u, idx, words))
    ops2, _ = full(tree)                     # with the observed hooks
    return {"tree": tree, "ops": ops2, "obs": obs, "errno": errno_ok, "nshow": nshow, "crashed": crashed,
            "stderr": err[-300:], "env": env or {}}


def run_shadow_case(h, tree, env):
    """run the tree on libmcount; entries libmcount rejected become HNone in the tree.
    -> dict(tree, ops, obs, errno, nshow, crashed)"""
    ops, owner = full(tree)
    nshow = tree_depth(tree) + 2
    rc, out, err = h.run(harness_lines(ops, owner), nshow, env)
    crashed = rc != 0 or len(out) != len(ops)
    return parse_shadow(tree, ops, owner, out, nshow, env, crashed, err)


def run_est_case(h, tree):
    """the tree under --estimate-return (UFTRACE_ESTIMATE_RETURN): slots live at decreasing addresses"""
    ops, owner = full(tree)
    nshow = tree_depth(tree) + 2
    rc, out, err = h.run(harness_lines(ops, owner), nshow, {"UFTRACE_ESTIMATE_RETURN": "1", "UFTRACE_TRIGGER": TRIGGER}, rev=True)
    crashed = rc != 0 or len(out) != len(ops)
    return parse_shadow(tree, ops, owner, out, nshow, {"UFTRACE_ESTIMATE_RETURN": "1"}, crashed, err)


def run_sched_case(h, trees, rng):
    """several trees, one per thread (thread 0 = initial thread), their operations interleaved at random"""
    per = []
    for t, tree in enumerate(trees):
        ops, owner = full(tree)
        per.append(list(zip(ops, owner, harness_lines(ops, owner))))
    pos = [0] * len(per)
    sched, lines, cur = [], [], None
    while any(pos[t] < len(per[t]) for t in range(len(per))):
        t = rng.choice([t for t in range(len(per)) if pos[t] < len(per[t])])
        burst = rng.choice([1, 1, 2, 5])
        for _ in range(burst):
            if pos[t] >= len(per[t]):
                break
            if cur != t:
                lines.append("T %d" % t)
                cur = t
            o, n, line = per[t][pos[t]]
            sched.append((t, o, n))
            lines.append(line)
            pos[t] += 1
    nshow = max(tree_depth(t) for t in trees) + 2
    rc, out, err = h.run(lines, nshow, {})
    if rc != 0 or len(out) != len(sched):
        return {"crashed": True, "stderr": err[-300:], "trees": trees}
    obs, errno_ok = [], []
    for (t, o, n), line in zip(sched, out):
        left, _, right = line.partition(" | ")
        k = left.split()
        snap = right.split()
        u = "UNone"
        if k[0] in ("E", "PE"):
            if k[0] == "E" and int(k[1]) != 0:
                n.h = "N"
            errno_ok.append(k[2] == "1")
        elif k[0] in ("CE", "CX"):
            errno_ok.append(k[1] == "1")
        elif k[0] == "R":
            u = "URet %d (%s)" % (int(k[1]), coq_word(k[2]))
            errno_ok.append(k[3] == "1")
        obs.append((u, int(snap[0]), snap[1:nshow + 1]))
    sched2 = [(t, o2) for (t, _, _), o2 in zip(sched, [None] * len(sched))]
    # operations again, with the hooks libmcount really took
    per2 = [full(tree)[0] for tree in trees]
    pos = [0] * len(per2)
    final = []
    for (t, _, _) in sched:
        final.append((t, per2[t][pos[t]]))
        pos[t] += 1
    return {"crashed": False, "trees": trees, "sched": final, "obs": obs, "errno": errno_ok, "nshow": nshow}


def coq_sched_case(c):
    return ("{| sd_trees := [%s];\n   sd_sched := [%s];\n   sd_obs := [%s];\n   sd_errno := [%s];\n   sd_nslots := %d |}" % (
        "; ".join("(%d, %s)" % (t, coq_tree(tr)) for t, tr in enumerate(c["trees"])),
        "; ".join("(%d, %s)" % (t, coq_op(o)) for t, o in c["sched"]),
        "; ".join("(%s, %d, [%s])" % (u, idx, "; ".join(coq_word(w) for w in ws)) for (u, idx, ws) in c["obs"]),
        "; ".join(coq.coq_bool(b) for b in c["errno"]), c["nshow"]))


def run_shadow_batch(h, trees, env):
    """several trees in one libmcount process (every tree ends with an empty shadow stack; `Z` clears the
    slots).  If anything looks wrong the trees are re-run one by one."""
    NS = 12
    lines, spans = [], []
    for t in trees:
        ops, owner = full(t)
        spans.append((len(lines), ops, owner))
        lines += harness_lines(ops, owner) + ["Z"]
    rc, out, err = h.run(lines, NS, env)
    if rc != 0 or len(out) != len(lines) or any(not out[st + len(ops)].startswith("Z | 0 ") for st, ops, _ in spans):
        return [run_shadow_case(h, t, env) for t in trees]
    res = []
    for t, (st, ops, owner) in zip(trees, spans):
        res.append(parse_shadow(t, ops, owner, out[st:st + len(ops)], tree_depth(t) + 2, env, False, err))
    return res


def gen_chain_tree(rng):
    """a function whose return slot is shared by 2-4 hooked entries of mixed kinds (tail calls: -pg function <-> PLT call),
    optionally called from a hooked parent -> (tree, index of the operation that returns through the shared slot)"""
    kinds = [rng.choice("MP") for _ in range(rng.choice([2, 2, 3, 4]))]
    if rng.random() < 0.6:
        kinds[-2:] = ["P", "M"]              # an instrumented library function called through the PLT
    chain = Node(201, kinds[0], [], [Node(202 + i, k, [], [], rng.choice(PLAIN_FNS)) for i, k in enumerate(kinds[1:])],
                 rng.choice(PLAIN_FNS))
    if rng.random() < 0.5:
        tree = Node(101, rng.choice("MPN"), [chain], [], rng.choice(PLAIN_FNS))
    else:
        tree = chain
    ops, _ = full(tree)
    return tree, [i for i, o in enumerate(ops) if o[0] == "R"][0], "".join(kinds)


def run_stop_case(h, tree, rng):
    """run the tree up to a return that goes through a trampoline, then tell libmcount that tracing is being
    finished (STOP) and let that function return -> dict or None if the tree has no such return"""
    ops, owner = full(tree)
    # candidates: returns of activations whose slot carries a -pg/PLT frame (own hook or a tail callee's)
    def hooked_slot(n):
        return n.h in "MP" or any(hooked_slot(t) for t in n.tails)
    cands = [i for i, (o, n) in enumerate(zip(ops, owner)) if o[0] == "R" and hooked_slot(n)]
    if not cands:
        return None
    i = rng.choice(cands)
    lines = harness_lines(ops[:i], owner[:i]) + ["STOP", "R %d" % ops[i][1]]
    rc, out, err = h.run(lines, 2, {})
    if rc != 0 or len(out) != len(lines):
        return {"crashed": True, "tree": tree, "stderr": err[-300:], "cut": i}
    for j, line in enumerate(out[:i]):
        k = line.split()
        if k[0] == "E" and int(k[1]) != 0:
            owner[j].h = "N"
    k = out[-1].partition(" | ")[0].split()
    ops2, _ = full(tree)
    return {"crashed": False, "tree": tree, "ops": ops2[:i], "slot": ops[i][1], "cut": i,
            "obs": "URet %d (%s)" % (int(k[1]), coq_word(k[2])), "expect": owner[i].ra, "raw": out[-1]}


def coq_stop_case(c):
    return "{| st_ops := [%s]; st_slot := %d; st_obs := %s; st_expect := %d |}" % (
        "; ".join(coq_op(o) for o in c["ops"]), c["slot"], c["obs"], c["expect"])


def coq_shadow_case(c):
    obs = "; ".join("(%s, %d, [%s])" % (u, idx, "; ".join(coq_word(w) for w in ws)) for (u, idx, ws) in c["obs"])
    return ("{| sc_tree := %s;\n   sc_ops := [%s];\n   sc_obs := [%s];\n   sc_errno := [%s];\n   sc_nslots := %d |}"
            % (coq_tree(c["tree"]), "; ".join(coq_op(o) for o in c["ops"]), obs,
               "; ".join(coq.coq_bool(b) for b in c["errno"]), c["nshow"]))


# ================================================================ thread life cycle (Life.v)
def strip_hooks(n):
    n.h = "N"
    for k in n.kids + n.tails:
        strip_hooks(k)


def gen_life_case(rng):
    """-> (pre tree, cut, [post trees]): a new thread runs the first `cut` operations of the pre tree and exits; every
    post tree is run by the harness' key destructor in one more destructor round, after libmcount's mtd_dtor"""
    pre = gen_tree(rng, rng.choice(["pg", "mixed", "cyg", "plt", "tail", "recover", "cygpg", "plttail"]), maxd=3, budget=6)
    if rng.random() < 0.15:
        strip_hooks(pre)                     # a thread the tracer first meets inside a destructor
    nops = len(full(pre)[0])
    cut = nops if rng.random() < 0.65 else rng.randrange(1, nops)      # open frames at thread exit: pthread_exit()
    posts = [gen_tree(rng, rng.choice(["pg", "mixed", "cyg", "plt", "tail", "recover"]), maxd=3, budget=5)
             for _ in range(rng.choice([1, 1, 2, 3, 4]))]
    return pre, cut, posts


def run_life_case(h, pre, cut, posts):
    ops, owner = full(pre)
    groups = [harness_lines(ops[:cut], owner[:cut])]
    pops = []
    for t in posts:
        o2, w2 = full(t)
        pops.append(o2)
        groups.append(harness_lines(o2, w2))
    nshow = max(tree_depth(t) for t in [pre] + posts) + 2
    rc, out, err = h.run(["LIFE " + " @ ".join(";".join(g) for g in groups)], nshow, {})
    want = cut + sum(1 + len(o2) for o2 in pops)
    base = {"pre": pre, "cut": cut, "posts": posts, "stderr": err[-300:], "raw": out[:200]}
    if rc != 0 or len(out) != want:
        return dict(base, crashed=True)
    obs, flags = [], []
    kinds = ["op"] * cut
    for o2 in pops:
        kinds += ["D"] + ["op"] * len(o2)
    for i, (kind, line) in enumerate(zip(kinds, out)):
        left, _, right = line.partition(" | ")
        k = left.split()
        snap = right.split()
        u = "UNone"
        if kind == "D":
            if k[0] != "D":
                return dict(base, crashed=True)
            flags.append(tuple(x == "1" for x in k[1:4]))
        elif k[0] == "E" and i < cut and int(k[1]) != 0:
            owner[i].h = "N"
        elif k[0] == "R":
            u = "URet %d (%s)" % (int(k[1]), coq_word(k[2]))
        obs.append((u, int(snap[0]), snap[1:nshow + 1]))
    return dict(base, crashed=False, pre_ops=full(pre)[0][:cut], obs=obs, flags=flags, nshow=nshow)


def coq_life_case(c):
    return ("{| lf_pre := [%s];\n   lf_posts := [%s];\n   lf_obs := [%s];\n   lf_flags := [%s];\n   lf_nslots := %d |}" % (
        "; ".join(coq_op(o) for o in c["pre_ops"]), "; ".join(coq_tree(t) for t in c["posts"]),
        "; ".join("(%s, %d, [%s])" % (u, idx, "; ".join(coq_word(w) for w in ws)) for (u, idx, ws) in c["obs"]),
        "; ".join("(%s, %s, %s)" % tuple(coq.coq_bool(b) for b in f) for f in c["flags"]), c["nshow"]))


def life_json(c):
    return {"kind": "life", "pre": json_tree(c["pre"]), "cut": c["cut"], "posts": [json_tree(t) for t in c["posts"]],
            "observed": c.get("raw"), "flags(key,marker,dead)": c.get("flags"), "stderr": c.get("stderr")}


def evaluate_life(ctx, lcases, name="life"):
    """model (Life.run_lop) vs libmcount, and the property on libmcount's own outputs, inside Coq"""
    good = [c for c in lcases if not c["crashed"]]
    for c in lcases:
        if c["crashed"]:
            ctx.violation("libmcount crashed (or the tracee would die in ASSERT(!mtdp->dead)) when a thread ran traced code in a "
                          "key destructor after libmcount's own thread teardown", life_json(c), True)
    if not good:
        return
    defs = "Local Open Scope nat_scope.\nDefinition lcases : list life_case := [\n%s\n].\n" % ";\n".join(coq_life_case(c) for c in good)
    res = coq.run_cases(ctx, name, PRE, defs, [("l_mismatch", "bad_indices life_agrees lcases 0"),
                                               ("l_violations", "bad_indices life_ok lcases 0")])
    if res is None:
        return
    res = {k: coq.parse_nat_list(v) for k, v in res.items()}
    ctx.log("thread life-cycle cases evaluated in Coq:", {k: v for k, v in res.items() if v} or "all agree, all accepted")
    for i in res["l_violations"][:3]:
        ctx.violation("C01 violated: after libmcount tore a thread down (mtd_dtor at thread exit) a hook fired again in that thread - "
                      "a return address was hijacked / the shadow stack is not empty / a return did not go to its real caller",
                      life_json(good[i]), True)
    if res["l_mismatch"] and not res["l_violations"]:
        ctx.violation("thread life-cycle model (Life.run_lop: key value, recursion marker, dead) and libmcount disagree on %d cases"
                      % len(res["l_mismatch"]), life_json(good[res["l_mismatch"][0]]), False)


# ================================================================ xmm cases
def gen_xmm(rng, kind):
    """16 vector registers of 8 words (word i = bits 64i..64i+63) + a clobber"""
    def word(k):
        if k == "zero":
            return 0
        if k == "ones":
            return (1 << 64) - 1
        if k == "nan":
            return 0x7ff8000000000001
        return rng.getrandbits(64)
    before = []
    for i in range(16):
        lo = word(rng.choice(["rnd", "rnd", "nan", "zero"]))
        hi = {"hi-zero": 0, "hi-ones": (1 << 64) - 1}.get(kind, None)
        if hi is None:
            hi = word(rng.choice(["rnd", "rnd", "ones", "zero", "nan"]))
        if kind == "upper-zero":
            up = [0] * 6
        else:
            up = [word(rng.choice(["rnd", "rnd", "ones", "nan", "zero"])) for _ in range(6)]
        before.append(tuple([lo, hi] + up))
    clobber = [tuple(rng.getrandbits(64) if rng.random() < 0.7 else 0 for _ in range(8)) for _ in range(16)]
    return before, clobber


def run_xmm(h, before, clobber):
    ws = []
    for r in before + clobber:
        ws += ["%x" % w for w in r]
    rc, out, err = h.run(["VEC " + " ".join(ws)], 2)
    k = out[0].partition(" | ")[0].split()
    level = int(k[1])
    vals = [int(x, 16) for x in k[2:130]]
    return level, [tuple(vals[8 * i:8 * i + 8]) for i in range(16)]


def run_hook_xmm(h, rng):
    """mcount_entry / mcount_exit called with chosen xmm0-15 while a libc function they reach overwrites every
    xmm register -> [(hook, before, after)]"""
    def words(pairs):
        out = []
        for lo, hi in pairs:
            out += ["%x" % lo, "%x" % hi]
        return " ".join(out)
    b = [[r[:2] for r in gen_xmm(rng, "rnd")[0]] for _ in range(4)]
    lines = ["P 1 100", "XE 0 1 " + words(b[0]), "P 2 101", "XE 1 2 " + words(b[1]), "XR 2 " + words(b[2]), "XR 1 " + words(b[3])]
    rc, out, err = h.run(lines, 4)
    res = []
    for hook, bef, line in (("mcount_entry", b[0], out[1]), ("mcount_entry", b[1], out[3]),
                            ("mcount_exit", b[2], out[4]), ("mcount_exit", b[3], out[5])):
        k = line.partition(" | ")[0].split()
        vals = [int(x, 16) for x in k[-32:]]
        res.append((hook, bef, [(vals[2 * i], vals[2 * i + 1]) for i in range(16)], k[:len(k) - 32]))
    return res


def run_hook_vec(h, rng):
    """mcount_entry / mcount_exit called with chosen whole vector registers (the widest the CPU has) and a chosen MXCSR
    while the libc stand-in overwrites them and ends with vzeroupper -> [(level, hook, before, after, csr_before, csr_after)]"""
    def words(regs):
        return " ".join("%x" % w for r in regs for w in r)
    def csr():
        return 0x1f80 | (rng.randrange(4) << 13) | rng.randrange(0x40) | (0x8000 if rng.random() < 0.3 else 0)
    b = [gen_xmm(rng, "rnd")[0] for _ in range(4)]
    cs = [csr() for _ in range(4)]
    lines = ["P 1 100", "VE 0 1 %s %x" % (words(b[0]), cs[0]), "P 2 101", "VE 1 2 %s %x" % (words(b[1]), cs[1]),
             "VR 2 %s %x" % (words(b[2]), cs[2]), "VR 1 %s %x" % (words(b[3]), cs[3])]
    rc, out, err = h.run(lines, 4)
    res = []
    for hook, bef, c0, line in (("mcount_entry", b[0], cs[0], out[1]), ("mcount_entry", b[1], cs[1], out[3]),
                                ("mcount_exit", b[2], cs[2], out[4]), ("mcount_exit", b[3], cs[3], out[5])):
        k = line.partition(" | ")[0].split()
        level = int(k[1])
        vals = [int(x, 16) for x in k[-129:-1]]
        nvis = [2, 4, 8][level]
        # words that do not exist on this machine are not compared: present them as the model computes them
        bef = [tuple(list(r[:nvis]) + [0] * (8 - nvis)) for r in bef]
        res.append((level, hook, bef, [tuple(vals[8 * i:8 * i + 8]) for i in range(16)], c0, int(k[-1], 16)))
    return res


def coq_pairs(l):
    return "[%s]" % "; ".join("(%d, %d)" % p for p in l)


def coq_vregs(l):
    return "[%s]" % "; ".join("[%s]" % "; ".join("%d" % w for w in r) for r in l)


PRE = """From Coq Require Import ZArith List Bool String.
Import ListNotations.
Require Import UV.C01.Model.
Local Open Scope Z_scope.
"""


def evaluate_chunk(ctx, scases, xcases, name, hcases=(), tcases=(), ecases=(), dcases=(), ycases=()):
    defs = "Local Open Scope nat_scope.\nDefinition scases : list shadow_case := [\n%s\n].\nLocal Open Scope Z_scope.\n" % ";\n".join(coq_shadow_case(c) for c in scases)
    defs += "Definition xcases : list xmm_case := [\n%s\n].\n" % ";\n".join(
        "{| xc_level := %d%%nat; xc_before := %s; xc_clobber := %s; xc_after := %s |}" % (v, coq_vregs(b), coq_vregs(c), coq_vregs(a))
        for (v, b, c, a) in xcases)
    defs += "Definition hcases : list hook_xmm_case := [\n%s\n].\n" % ";\n".join(
        '{| hx_hook := "%s"%%string; hx_before := %s; hx_after := %s |}' % (hk, coq_pairs(b), coq_pairs(a))
        for (hk, b, a, _) in hcases)
    defs += "Local Open Scope nat_scope.\nDefinition tcases : list stop_case := [\n%s\n].\nLocal Open Scope Z_scope.\n" % ";\n".join(
        coq_stop_case(c) for c in tcases)
    defs += "Local Open Scope nat_scope.\nDefinition ecases : list shadow_case := [\n%s\n].\nLocal Open Scope Z_scope.\n" % ";\n".join(
        coq_shadow_case(c) for c in ecases)
    defs += "Local Open Scope nat_scope.\nDefinition dcases : list sched_case := [\n%s\n].\nLocal Open Scope Z_scope.\n" % ";\n".join(
        coq_sched_case(c) for c in dcases)
    defs += "Definition ycases : list hook_vec_case := [\n%s\n].\n" % ";\n".join(
        '{| hv_level := %d%%nat; hv_hook := "%s"%%string; hv_before := %s; hv_after := %s; hv_csr_before := %d; hv_csr_after := %d |}'
        % (lv, hk, coq_vregs(b), coq_vregs(a), c0, c1) for (lv, hk, b, a, c0, c1) in ycases)
    res = coq.run_cases(ctx, name, PRE, defs, [
        ("y_mismatch", "bad_indices hook_vec_agrees ycases 0"),
        ("y_violations", "bad_indices hook_vec_ok ycases 0"),
        ("d_mismatch", "bad_indices sched_agrees dcases 0"),
        ("d_violations", "bad_indices sched_ok dcases 0"),
        ("e_mismatch", "bad_indices est_agrees ecases 0"),
        ("e_violations", "bad_indices est_ok ecases 0"),
        ("t_mismatch", "bad_indices stop_agrees tcases 0"),
        ("t_violations", "bad_indices stop_ok tcases 0"),
        ("s_mismatch", "bad_indices shadow_agrees scases 0"),
        ("s_violations", "bad_indices shadow_ok scases 0"),
        ("x_mismatch", "bad_indices xmm_agrees xcases 0"),
        ("x_violations", "bad_indices xmm_ok xcases 0"),
        ("h_mismatch", "bad_indices hook_xmm_agrees hcases 0"),
        ("h_violations", "bad_indices hook_xmm_ok hcases 0"),
    ])
    if res is None:
        return None
    return {k: coq.parse_nat_list(v) for k, v in res.items()}


def evaluate(ctx, scases, xcases, name="cases", chunk=50, hcases=(), tcases=(), ecases=(), dcases=(), ycases=()):
    """model and checker evaluated by vm_compute inside Coq; chunks run in parallel coqc processes"""
    jobs = []
    for k, j in enumerate(range(0, max(len(scases), 1), chunk)):
        jobs.append((j, scases[j:j + chunk], xcases if k == 0 else []))
    with concurrent.futures.ThreadPoolExecutor(max_workers=6) as ex:
        rs = list(ex.map(lambda jb: evaluate_chunk(ctx, jb[1], jb[2], "%s_%d" % (name, jb[0]),
                                                   hcases if jb[0] == 0 else (), tcases if jb[0] == 0 else (),
                                                   ecases if jb[0] == 0 else (), dcases if jb[0] == 0 else (),
                                                   ycases if jb[0] == 0 else ()), jobs))
    if any(r is None for r in rs):
        return None
    res = {"s_mismatch": [], "s_violations": [], "x_mismatch": [], "x_violations": [], "h_mismatch": [], "h_violations": [],
           "t_mismatch": [], "t_violations": [], "e_mismatch": [], "e_violations": [],
           "d_mismatch": [], "d_violations": [], "y_mismatch": [], "y_violations": []}
    for (j, _, _), r in zip(jobs, rs):
        res["s_mismatch"] += [j + i for i in r["s_mismatch"]]
        res["s_violations"] += [j + i for i in r["s_violations"]]
        res["x_mismatch"] += r["x_mismatch"]
        res["x_violations"] += r["x_violations"]
        res["h_mismatch"] += r["h_mismatch"]
        res["h_violations"] += r["h_violations"]
        res["t_mismatch"] += r["t_mismatch"]
        res["t_violations"] += r["t_violations"]
        res["e_mismatch"] += r["e_mismatch"]
        res["e_violations"] += r["e_violations"]
        res["d_mismatch"] += r["d_mismatch"]
        res["d_violations"] += r["d_violations"]
        res["y_mismatch"] += r["y_mismatch"]
        res["y_violations"] += r["y_violations"]
    return res


# ================================================================ objdump monitor
ALLOWED_SITES = [
    (r"^(mcount_return|dynamic_return|plthook_return|__xray_exit)$", r"^movdqu\s+(%xmm0,0x10\(%rsp\)|0x10\(%rsp\),%xmm0)$"),
    (r"^mcount_save_arch_context$", r"^stmxcsr\s+(0x[0-9a-f]+)?\(%r\w+\)$"),
    (r"^mcount_restore_arch_context$", r"^ldmxcsr\s+(0x[0-9a-f]+)?\(%r\w+\)$"),
    (r"^mcount_save_arch_context(_sse|_avx|_avx512)?(\.\w+)*$", r"^(movdqu\s+%xmm|vmovdqu\s+%ymm|vmovdqu64\s+%zmm)[0-7],(0x[0-9a-f]+)?\(%r\w+\)$"),
    (r"^mcount_restore_arch_context(_sse|_avx|_avx512)?(\.\w+)*$", r"^(movdqu\s+(0x[0-9a-f]+)?\(%r\w+\),%xmm|vmovdqu\s+(0x[0-9a-f]+)?\(%r\w+\),%ymm|vmovdqu64\s+(0x[0-9a-f]+)?\(%r\w+\),%zmm)[0-7]$"),
    (r"^mcount_(get_register_arg|arch_get_arg|get_struct_arg)(\.\w+)*$", r"^movs[sd]\s+%xmm[0-7],[^%]*\(%r\w+\)$"),
    (r"^mcount_arch_get_retval(\.\w+)*$", r"^(movsd\s+%xmm0,[^%]*\(%r\w+\)|fstpt\s+[^%]*\(%r\w+\)|fldt\s+[^%]*\(%r\w+\))$"),
]
FPU_RE = re.compile(r"%[xyz]mm\d+|%mm[0-7]|%st|^(f[a-z0-9]+|emms|ldmxcsr|stmxcsr|vzeroupper|vzeroall|xsave\w*|xrstor\w*)\b")


def objdump_monitor(ctx, objdir):
    bad = []
    nsites = 0
    for so in sorted(os.listdir(os.path.join(objdir, "libmcount"))):
        if not so.endswith(".so"):
            continue
        rc, out, err = sh(["objdump", "-d", "--no-show-raw-insn", os.path.join(objdir, "libmcount", so)], timeout=120)
        if rc != 0:
            ctx.broken("objdump failed on %s" % so, err)
            continue
        fn = "?"
        for line in out.splitlines():
            m = re.match(r"^[0-9a-f]+ <([^>]+)>:$", line)
            if m:
                fn = m.group(1)
                continue
            m = re.match(r"^\s*[0-9a-f]+:\s+(.*?)\s*(#.*)?$", line)
            if not m:
                continue
            ins = m.group(1).strip()
            if not FPU_RE.search(ins):
                continue
            nsites += 1
            if not any(re.match(f, fn) and re.match(i, ins) for f, i in ALLOWED_SITES):
                bad.append("%s: <%s> %s" % (so, fn, ins))
    ctx.extra["fpu_sites_seen"] = nsites
    ctx.tag("monitor:objdump")
    if bad:
        ctx.broken("assumption monitor: libmcount contains SSE/x87 instructions outside the known save/restore "
                   "sites (the hooks are assumed to leave xmm/x87 state alone): " + "; ".join(bad[:6]),
                   "\n".join(bad[:200]))
    return bad


# ================================================================ end-to-end differential
SCRIPT_FP_PY = """import math
def uftrace_entry(ctx):
    n = len(ctx["name"]) + 1
    x = n / 3.0 + math.sqrt(n + 0.5)
def uftrace_exit(ctx):
    n = len(ctx["name"]) + 2
    y = n / 7.0
"""

SCRIPT_PY = """def uftrace_entry(ctx):
    x = 1.5 * 2.5 + len(ctx.get("name", ""))
def uftrace_exit(ctx):
    y = 3.25 / 7.0
"""


def option_sets(scratch):
    spy = os.path.join(scratch, "c01_script.py")
    if not os.path.exists(spy):
        open(spy, "w").write(SCRIPT_PY)
    spf = os.path.join(scratch, "c01_script_fp.py")
    if not os.path.exists(spf):
        open(spf, "w").write(SCRIPT_FP_PY)
    return {
        "plain": [],
        "no-libcall": ["--no-libcall"],
        "nest-libcall": ["-l"],
        "args": ["-A", "^f[0-9]+$@arg1/s,arg2", "-R", "^f[0-9]+$@retval"],
        "auto-args": ["-a"],
        "filter": ["-F", "f1", "-F", "root", "-N", "f4"],
        "depth": ["-D", "3"],
        "time": ["-t", "1us"],
        "estimate-return": ["-e"],
        "script": ["-S", spy],
        "recover": ["-T", "f2@recover", "-T", "f5@recover"],
        "libargs": ["-A", "strlen@arg1/s", "-A", "snprintf@arg3/s", "-R", "strtol@retval"],
        "finish": ["-T", "finish_now@finish"],
        "script-fp": ["-S", spf],
        "max-stack": ["--max-stack", "6"],
        "max-stack-16": ["--max-stack", "16"],
        "max-stack-16-l": ["--max-stack", "16", "-l"],
        "max-stack-64": ["--max-stack", "64"],
        "disable": ["--disable"],
        "no-pltbind": ["--no-pltbind"],
        "num-thread": ["--num-thread", "3"],
        "clock": ["--clock", "mono_raw"],
        "caller": ["-C", "f3"],
        "size-filter": ["-Z", "40"],
        "trace-off-on": ["-T", "f2@trace_off", "-T", "f4@trace_on"],
        "watch-cpu": ["-W", "cpu"],
        "signal-trigger": ["--signal", "SIGUSR1@finish"],
        "hide": ["-H", "f1"],
        "logfile": ["--logfile", os.path.join(scratch, "c01_uftrace.log")],      # libmcount logs to an inherited descriptor (UFTRACE_LOGFD)
        "fparg": ["-A", "^f[0-9]+$@fparg1/64", "-R", "^f[0-9]+$@retval/f64"],
        "time-auto-args": ["-t", "1us", "-a"],
        "backtrace": ["-T", "f1@color=red,backtrace"],
        "small-buffer": ["-b", "4k"],
        "read-trigger": ["-T", "fd@read=proc/statm", "-T", "fc@read=proc/statm", "-T", "f1@read=proc/statm", "-T", "f3@read=page-fault"],
        "args-g": ["-A", "g@arg1/s", "-A", "q@arg1/s"],
        "args-f8": ["-A", "f8@arg1/s"],
        "recover-rec": ["-T", "rec@recover"],
        "args-fa": ["-A", "fa@arg1/s"],
    }


def have_avx():
    try:
        return " avx2 " in open("/proc/cpuinfo").read()
    except OSError:
        return False


def have_avx512():
    try:
        return " avx512f " in open("/proc/cpuinfo").read()
    except OSError:
        return False


MULTI = {}      # name -> corpus entry with "files" + "build" (several differently built objects)


def compile_multi(workdir, name, entry):
    d = os.path.join(workdir, name + ".d")
    exe = os.path.join(d, "prog")
    if os.path.exists(exe):
        return exe
    os.makedirs(d, exist_ok=True)
    for fn, text in entry["files"].items():
        open(os.path.join(d, fn), "w").write(text)
    for cmd in entry["build"]:
        rc, out, err = sh(cmd, timeout=120, cwd=d)
        if rc != 0:
            raise RuntimeError("corpus witness %s does not build (%s): %s" % (name, cmd, err[-800:]))
    return exe


def compile_prog(workdir, name, src, mode, opt, cflags=()):
    if name in MULTI:
        return compile_multi(workdir, name, MULTI[name])
    cxx = "\n// c++\n" in src
    c = os.path.join(workdir, name + (".cpp" if cxx else ".c"))
    if not os.path.exists(c):
        open(c, "w").write(src)
    exe = os.path.join(workdir, "%s.%s%s" % (name, mode, opt))
    if os.path.exists(exe):
        return exe
    if "__m512d" in src and not cflags:
        cflags = ["-mavx512f"]
    elif "__m256d" in src and not cflags:
        cflags = ["-mavx2"]
    cmd = ["g++" if cxx else "gcc", opt, "-g", "-w"] + list(cflags) + G.MODES[mode][0] + ["-o", exe + ".tmp", c, "-lm", "-pthread"]
    rc, out, err = sh(cmd, timeout=120)
    if rc != 0:
        raise RuntimeError("generated program does not compile (%s %s): %s" % (mode, opt, err[-1500:]))
    os.rename(exe + ".tmp", exe)
    return exe


def run_native(exe, outfile):
    env = dict(os.environ, VERIF_OUT=outfile)
    p = subprocess.run([exe], capture_output=True, timeout=60, env=env, cwd=os.path.dirname(exe))
    return p.returncode, p.stdout, slurp(outfile)


def slurp(path):
    try:
        with open(path, "rb") as f:
            b = f.read()
        os.unlink(path)
        return b
    except OSError:
        return None


def run_traced(objdir, exe, mode, opts, datadir, live=False):
    uft = os.path.join(objdir, "uftrace")
    shutil.rmtree(datadir, ignore_errors=True)
    base = ["timeout", "60", uft, "live" if live else "record", "--no-pager", "--no-event", "--libmcount-path=" + objdir]
    if not live:
        base += ["-d", datadir]
    cmd = base + G.MODES[mode][1] + opts + [exe]
    outfile = datadir + ".out"
    p = subprocess.run(cmd, capture_output=True, timeout=90, env=dict(os.environ, VERIF_OUT=outfile), cwd=os.path.dirname(exe))
    status = None
    if not live:
        q = subprocess.run([uft, "info", "--no-pager", "-d", datadir], capture_output=True, text=True, timeout=30)
        m = re.search(r"exit status\s*:\s*(.*)", q.stdout)
        if m:
            m2 = re.match(r"exited with code: (\d+)", m.group(1))
            status = int(m2.group(1)) if m2 else m.group(1).strip()
    shutil.rmtree(datadir, ignore_errors=True)
    return p.returncode, p.stdout, p.stderr.decode(errors="replace"), status, slurp(outfile)


def digest_lines(b):
    return b"\n".join(l for l in (b or b"").splitlines() if l.startswith(b"DIGEST "))


def e2e_compare(nat, traced, live, status_unreliable=False):
    """the program's own report (private file) must be identical; its DIGEST lines on the shared stdout too
    (the tracer may add its own messages there); exit status as recorded by uftrace = native"""
    nrc, nout, nfile = nat
    trc, tout, terr, status, tfile = traced
    problems = []
    if trc == 124:
        problems.append("traced run did not terminate")
    if tfile != nfile:
        problems.append("the traced program's report differs from the native run (%r vs %r)"
                        % ((tfile or b"")[-80:], (nfile or b"")[-80:]))
    if digest_lines(tout) != digest_lines(nout):
        problems.append("DIGEST lines on stdout differ from the native run")
    if not live and not status_unreliable:      # after a finish trigger the recorder may leave before the program does
        if nrc < 0:
            if not (isinstance(status, str) and status.startswith("terminated by signal: %d " % -nrc)):
                problems.append("the native program died of signal %d, the traced one: %r" % (-nrc, status))
        elif status != nrc:
            problems.append("exit status of the traced program is %r, native %r" % (status, nrc))
        if nrc >= 0 and (trc != 0) != (nrc != 0) and trc != 124:
            problems.append("uftrace exit code %d does not reflect the program's status %d" % (trc, nrc))
    return problems


def e2e_plan(ctx):
    """list of (program params, [(mode, opt, optset, live)])"""
    rng = ctx.rng
    plan = []
    nprog = ctx.n(7, 30)
    per = ctx.n(9, 24)
    osets = [o for o in option_sets(ctx.scratch) if not o.startswith("args-") and not o.startswith("max-stack-")
             and o not in ("finish", "script-fp", "recover-rec")]
    for pi in range(nprog):
        threads = 4 if pi % 3 == 1 else 1
        classes = None if pi % 2 == 0 else rng.sample(list(G.CLASSES), 3) + ["vector"]
        params = {"seed": rng.getrandbits(40), "nfn": rng.choice([6, 8, 10]), "threads": threads,
                  "classes": classes, "stress": pi % 2 == 0, "avx": have_avx() and pi % 3 == 2}
        runs = []
        # the vector/script and vector/args combinations are the class of the fixed defect: always present
        combos = [("pg", "-O2", "script", False), ("fentry", "-O2", "args", False)] if pi < 2 else []
        while len(combos) < per:
            # -pg + stack realignment (AVX spills) is the known finding pg-drap-realigned-stack: AVX programs
            # use the other three methods
            mode = rng.choice([m for m in G.MODES if m != "fentry-nested" and not (params["avx"] and m == "pg")])
            oset = rng.choice(osets)
            if mode == "cyg" and oset in ("args", "auto-args", "recover"):
                oset = "plain"
            if mode == "fentry-nop" and oset in ("script",):
                pass
            combos.append((mode, rng.choice(["-O0", "-O2", "-O2", "-O1", "-O3", "-Os"]), oset,
                           rng.random() < 0.12 and oset in ("plain", "depth", "nest-libcall", "args", "estimate-return")))
        plan.append((params, combos))
    return plan


def make_prog(params):
    import random
    rng = random.Random(params["seed"])
    return G.gen_program(rng, nfn=params["nfn"], threads=params["threads"], classes=params["classes"],
                         stress_regs=params["stress"], avx=params.get("avx", False))


def e2e(ctx, objdir):
    work = os.path.join(ctx.scratch, "e2e")
    os.makedirs(work, exist_ok=True)
    plan = e2e_plan(ctx)
    osets = option_sets(ctx.scratch)
    jobs = []
    sources = {}
    # corpus first: minimised witnesses of defects this check found (all fixed in /repo): ordinary cases
    cdir = os.path.join(VERIF, "corpus", "C01")
    for ci, fn in enumerate(sorted(f for f in os.listdir(cdir) if f.endswith(".json")) if os.path.isdir(cdir) else []):
        c = json.load(open(os.path.join(cdir, fn)))
        if (c.get("needs_avx") and not have_avx()) or (c.get("needs_avx512") and not have_avx512()):
            continue
        key = "c%d" % ci
        if "files" in c:
            MULTI[key] = c
        sources[key] = c["source"]
        jobs.append((key, {"corpus": c["name"], "seed": c["name"], "threads": 1}, c["source"],
                     {"sigs": [c["name"]]}, c["mode"], c["opt"], c["optset"], False))
    # clause-audit scenarios: exit paths, call depth beyond --max-stack, FP environment, fork/vfork/exec, signals
    seen_sc = set()
    for si, name in enumerate(sorted(SC.SCENARIOS)):
        key = "s_" + name
        sources[key] = SC.source(name)
        for rep in range(ctx.n(1, 4)):
            mode = ctx.rng.choice(["pg", "fentry", "cyg", "patchable", "cyg" if name.startswith("ovf") else "fentry-nop"])
            oset = ctx.rng.choice(SC.PLAN[name])
            if name == "fds" and rep == 0 and oset == "logfile":
                oset = "plain"               # at least one run in which libmcount logs to the program's own stderr
            if mode == "cyg" and oset in ("args", "auto-args"):
                oset = "plain"
            opt = ctx.rng.choice(["-O1", "-O2"])
            if (key, mode, opt, oset) in seen_sc:          # one data directory / report file per configuration
                continue
            seen_sc.add((key, mode, opt, oset))
            jobs.append((key, {"scenario": name, "seed": ("scenario", name), "threads": 1}, sources[key],
                         {"sigs": ["scenario:" + name]}, mode, opt, oset, False))
    # finish-trigger scenarios: another thread ends tracing while workers sit in (tail-)called functions
    import random
    for fi in range(ctx.n(6, 40)):
        fseed = ctx.rng.getrandbits(32)
        fsrc, fdesc = G.gen_finish_program(random.Random(fseed))
        key = "f%d" % fi
        sources[key] = fsrc
        mode = ctx.rng.choice(["pg", "pg", "fentry", "patchable", "cyg"])
        jobs.append((key, {"finish": fdesc, "seed": ("finish", fseed), "threads": fdesc["nworkers"] + 1}, fsrc,
                     {"sigs": ["finish-scenario"]}, mode, "-O2", ctx.rng.choice(["finish", "finish", "plain"]), False))
    # ... the same with the parked function's return slot shared by a PLT-hook entry and an mcount entry (instrumented shared
    # library called through the PLT / library function tail-calling an instrumented callback): the exit hook that meets the
    # finish request has saved plthook_return, not mcount_return
    for gi in range(ctx.n(4, 30)):
        gseed = ctx.rng.getrandbits(32)
        mode = ctx.rng.choice(["pg", "pg", "fentry"])
        opt = ctx.rng.choice(["-O1", "-O2"])
        files, bcmds, gdesc = G.gen_finish_lib_program(random.Random(gseed), G.MODES[mode][0], opt)
        key = "g%d" % gi
        MULTI[key] = {"files": files, "build": bcmds}
        sources[key] = files["main.c"]
        jobs.append((key, {"finish": gdesc, "seed": ("finishlib", gseed, mode, opt), "threads": gdesc["nworkers"] + 1}, files["main.c"],
                     {"sigs": ["finish-scenario"]}, mode, opt, "finish" if gi % 5 else "plain", False))
    for pi, (params, combos) in enumerate(plan):
        src, desc = make_prog(params)
        sources["p%d" % pi] = src
        for (mode, opt, oset, live) in sorted(set(combos)):
            jobs.append(("p%d" % pi, params, src, desc, mode, opt, oset, live))

    def one(job):
        pi, params, src, desc, mode, opt, oset, live = job
        exe = compile_prog(work, pi, src, mode, opt)
        dd = os.path.join(work, "d.%s.%s%s.%s.%d" % (pi, mode, opt, oset, int(live)))
        nat = run_native(exe, dd + ".nat")
        tr = run_traced(objdir, exe, mode, osets[oset], dd, live)
        return job, nat, tr

    # compile each binary once before the pool races on it
    seen = sorted(set((job[0], job[4], job[5]) for job in jobs))
    with concurrent.futures.ThreadPoolExecutor(max_workers=10) as ex:
        list(ex.map(lambda k: compile_prog(work, k[0], sources[k[0]], k[1], k[2]), seen))
        results = list(ex.map(one, jobs))
    nbad = 0
    for job, nat, tr in results:
        pi, params, src, desc, mode, opt, oset, live = job
        problems = e2e_compare(nat, tr, live, status_unreliable=(oset == "finish"))
        tags = ["e2e:mode=" + mode, "e2e:" + opt, "e2e:opts=" + oset, "e2e:threads=%d" % params["threads"]]
        if live:
            tags.append("e2e:live")
        if "corpus" in params:
            tags.append("corpus:" + params["corpus"])
        if "scenario" in params:
            tags.append("scenario:" + params["scenario"])
        if "finish" in params:
            fd = params["finish"]
            tags += ["finish:" + ("tail" if fd["tail"] else "call") + "-chain=%d" % fd["chain"],
                     "finish:fired-by-" + ("worker" if fd["by_worker"] else "main")]
            if fd.get("lib"):
                tags.append("finish:plt-shared-slot=" + fd["lib"])
        for s in desc["sigs"]:
            for cl, ts in G.CLASSES.items():
                if any(t in s for t in ts):
                    tags.append("e2e:class=" + cl)
            if "..." in s:
                tags.append("e2e:class=variadic")
            if s.count(",") >= 6:
                tags.append("e2e:stack-args")
        if desc.get("nested") and mode != "fentry":
            tags.append("e2e:nested-function")
        ctx.case(key=("e2e", params["seed"], mode, opt, oset, live), tags=sorted(set(tags)),
                 sample={"e2e": {"mode": mode, "opt": opt, "options": osets[oset], "sigs": desc["sigs"][:4],
                                 "native_exit": nat[0], "digest": nat[1].decode(errors="replace").splitlines()[-1:]}}
                 if len(ctx.samples) < 5 else None, size=len(src))
        if problems and nbad < 3:
            nbad += 1
            ctx.violation("C01 violated end-to-end (%s %s, options %s): %s" % (mode, opt, oset, "; ".join(problems)),
                          {"kind": "e2e", "params": params, "mode": mode, "opt": opt, "optset": oset, "live": live,
                           "native": {"exit": nat[0], "stdout": nat[1].decode(errors="replace")[-2000:]},
                           "traced": {"uftrace_rc": tr[0], "stdout": tr[1].decode(errors="replace")[-2000:],
                                      "stderr": tr[2][-1500:], "exit": tr[3]},
                           "source": src, **({"files": MULTI[pi]["files"], "build": MULTI[pi]["build"]} if pi in MULTI else {})}, True)
    known_findings(ctx, objdir, work, osets)
    return len(results)


def known_findings(ctx, objdir, work, osets):
    """dedicated witnesses of listed defects (corpus/C01/known/*.json); the generators stay out of their class"""
    kdir = os.path.join(VERIF, "corpus", "C01", "known")
    for fn in sorted(os.listdir(kdir)) if os.path.isdir(kdir) else []:
        c = json.load(open(os.path.join(kdir, fn)))
        if c.get("needs_avx") and not have_avx():
            ctx.log("known finding %s needs an AVX machine: witness skipped" % c["key"])
            continue
        exe = compile_prog(work, "k_" + c["name"], c["source"], c["mode"], c["opt"])
        dd = os.path.join(work, "k." + c["name"])
        nat = run_native(exe, dd + ".nat")
        tr = run_traced(objdir, exe, c["mode"], osets[c["optset"]], dd, False)
        problems = e2e_compare(nat, tr, False)
        ctx.case(key=("known", c["name"]), tags=["known:" + c["key"]], validated=True)
        ctx.known_finding(c["key"], c["what"] + " -> " + ("; ".join(problems) or "no longer reproduces"), bool(problems),
                          {"kind": "e2e", "mode": c["mode"], "opt": c["opt"], "optset": c["optset"], "source": c["source"],
                           "native": {"exit": nat[0]}, "traced": {"exit": tr[3], "stderr": tr[2][-500:]}})


# ================================================================ entry points
def common_meta(ctx):
    ctx.rule = ("(see also the per-kind counters in boundary_hits: est:, threads=, finish:, hookvec:, xmm:level=) cases = (a) generated call trees (<= 24 activations, depth <= 6; hooks none/-pg/-pg+recover/cygprof, "
                "tail chains 0-3) run on the real mcount_entry/mcount_exit/__cyg_profile_func_*; distinct = distinct "
                "(tree, environment); non-trivial = at least one hooked activation; (b) xmm register files through the "
                "real save/restore pair; (c) end-to-end: generated C program x build mode x -O x record options, "
                "traced vs native (distinct = distinct (program seed, mode, opt, options))")
    ctx.trusted = [
        "Coq 8.16.1 kernel incl. vm_compute; no axioms (Print Assumptions: closed under the global context)",
        "gen/gen_stubs.py: AT&T text of arch/x86_64/{mcount,fentry,plthook,dynamic,xray}.S and the inline asm of "
        "mcount_save/restore_arch_context -> coq/theories/Gen/Stubs.v (unknown form => failure)",
        "coq/theories/C01/Machine.v: the instruction semantics (words as integers, exact pointer arithmetic, "
        "8-byte cells, ZF only) and the contract of a hook call [c_call]",
        "coq/theories/C01/Shadow.v: hand-written model of __mcount_entry/__mcount_exit/__plthook_entry/exit/"
        "__cygprof_entry/exit, mcount_auto_restore/rehook, mcount_rstack_restore/rehook (PLT frames are driven "
        "in-process on a fake module: libmcount/plthook.c is #included into the harness)",
        "coq/theories/C01/Life.v: hand-written model of the per-thread life cycle (mcount_prepare, the hooks' get_thread_data / "
        "guard preamble, mtd_dtor as glibc calls it at thread exit: key value, recursion marker, dead), tied in-process on new "
        "threads that really exit, with the harness' own key destructor running call trees after libmcount's",
        "coq/theories/C01/Fds.v: hand-written model of the descriptor table shared with libmcount (kernel: lowest-free rule, EBADF; "
        "libmcount: own descriptors at the top of the table, close() wrapper swallowing a close of the pipe) - tied end-to-end only "
        "(scenario fds, corpus fd-numbers-*)",
        "coq/theories/C01/ArchCtx.v: semantics of movsd/movq/movdqu/movups/vmovdqu/vmovdqu64 on 512-bit registers for "
        "the generated save/restore lists (legacy-SSE loads keep bits 128+, VEX/EVEX loads clear bits above the vector length)",
        "harness/c/c01_harness.c, props/c01.py, props/c01_progs.py (drivers, generators, comparison)",
        "gcc/binutils of the sandbox for the end-to-end programs and the objdump monitor",
    ]
    ctx.assume = [
        "real x86-64 CPU behaves as Machine.v says for the ~18 instruction forms the stubs use; rsp is 8-byte "
        "aligned at stub entry; no address arithmetic wraps",
        "a hook call obeys the contract of c_call: callee-saved registers, rsp and memory at/above the caller's "
        "rsp (except the return slot handed to mcount_entry/plthook_entry) are left alone (System V ABI, "
        "compiler); xmm0-7 are what the generated save/restore pair gives back around the hook body (the six C "
        "wrappers; their bracket structure is re-read from the C text on every run and exercised in-process "
        "with a libc stand-in that overwrites every vector register and ends with vzeroupper), all visible bits "
        "of registers 0-7 on SSE/AVX/AVX-512 machines; registers 8-31, opmask registers and x87 are NOT protected "
        "on paths that reach libc; libmcount's own code is SSE-free (-mgeneral-regs-only, monitored by objdump)",
        "mcount_find_code (called by __dentry__ without a wrapper) leaves all xmm registers alone",
        "-pg code keeps the parent's return slot at 8(%rbp) above the mcount call's own return address; at "
        "`call __fentry__` the parent's return slot is at 8(%rsp) (false for GNU C nested functions, which push "
        "%r10 first: known finding nested-function-mfentry, dedicated witness)",
        "return addresses of the program are never the address of mcount_return/dynamic_return/plthook_return",
        "no exception/longjmp/signal unwinding inside the window of the shadow-stack theorems (C11 models the per-jmp_buf snapshots; "
        "here setjmp/longjmp/siglongjmp are monitored end-to-end only: scenarios jmp, sigjmp), no fork/exec inside the hooks, "
        "mtdp->in_exception = false",
        "the shadow state is per thread (mtd is thread-local) and thread stacks are disjoint",
        "glibc runs key destructors in key order and libmcount's key is older than every key of the program (created in "
        "libmcount's constructor); the harness checks the order of its own key",
        "-pg code addresses its return slot as 8(%rbp) of the real frame (false after a DRAP stack realignment: known "
        "finding pg-drap-realigned-stack, dedicated witness)",
        "dynamic linker lazy binding, thread schedules, compiler code generation: monitored end-to-end only",
        "every traced thread has a few KB (about 6 KB measured) of stack below the frame of a hooked function for the "
        "stub and the hook (a thread created with PTHREAD_STACK_MIN that uses most of it itself overflows under "
        "tracing: resource limit, not modelled)",
        "descriptors: the traced program keeps fewer than RLIMIT_NOFILE - 32 descriptors open and does not close/dup2 onto/inspect "
        "descriptors it did not open (libmcount's pipe, log and debug-info descriptors sit in the top 32; a close of the pipe is "
        "swallowed and answers 0 instead of EBADF)",
        "MXCSR: control and status bits are what the wrappers' stmxcsr/ldmxcsr pair gives back; the x87 control word "
        "and x87 status are left to the ABI (libmcount is built -mgeneral-regs-only; libc callees keep the control word)",
    ]


SHAPES = ["mixed", "pg", "cyg", "recover", "tail", "deep", "cygpg", "plt", "plttail", "recoverplt"]


def run(ctx):
    common_meta(ctx)
    coq.prove(ctx, "C01")
    objdir = build.get_build("plain", ctx.log)
    h = Harness(ctx, objdir)

    # ---- (a) shadow-stack trees
    scases = []
    n = ctx.n(130, 1000)
    groups = {}
    for i in range(n):
        shape = SHAPES[i % len(SHAPES)]
        tree = gen_tree(ctx.rng, shape, maxd=ctx.rng.choice([3, 5, 6]), budget=ctx.rng.choice([6, 12, 24]))
        env = {}
        if i % 5 == 4:
            env["UFTRACE_DEPTH"] = ctx.rng.choice([1, 2, 3])
        groups.setdefault(tuple(sorted(env.items())), []).append((shape, tree))
    for envk, items in sorted(groups.items()):
        env = dict(envk)
        for j in range(0, len(items), 40):
            chunk = items[j:j + 40]
            for (shape, tree), c in zip(chunk, run_shadow_batch(h, [t for _, t in chunk], env)):
                scases.append(c)
                tags = set(["shape=" + shape])
                tree_tags(c["tree"], tags)
                if env:
                    tags.add("depth-limit")
                hooked = any(o[0] == "E" and o[1] != "N" for o in c["ops"])
                ctx.case(key=("shadow", coq_tree(c["tree"]), envk), nontrivial=hooked, tags=sorted(tags),
                         sample={"shadow": {"tree": coq_tree(c["tree"])[:300], "ops": len(c["ops"])}}
                         if len(ctx.samples) < 2 and hooked else None, size=tree_size(tree))
                if c["crashed"]:
                    ctx.violation("libmcount crashed or stopped answering while driving a call tree (return-address hijack)",
                                  {"kind": "shadow", "tree": json_tree(tree), "env": env, "stderr": c["stderr"]}, True)
    # ---- (b) xmm pair
    xcases = []
    for i in range(ctx.n(10, 200)):
        kind = ["rnd", "hi-zero", "hi-ones", "upper-zero", "rnd"][i % 5]
        before, clobber = gen_xmm(ctx.rng, kind)
        avx, after = run_xmm(h, before, clobber)
        xcases.append((avx, before, clobber, after))
        ctx.case(key=("xmm", tuple(before)), nontrivial=kind != "hi-zero", tags=["xmm:" + kind, "xmm:level=%d" % avx],
                 sample={"xmm": {"before0": ["%x" % w for w in before[0]], "after0": ["%x" % w for w in after[0]]}}
                 if i == 0 else None)
    hcases = []
    for i in range(ctx.n(3, 40)):
        for hc in run_hook_xmm(h, ctx.rng):
            hcases.append(hc)
            ctx.case(key=("hookxmm", hc[0], tuple(hc[1])), tags=["hookxmm:" + hc[0]],
                     sample={"hook_xmm": {"hook": hc[0], "before0": ["%x" % w for w in hc[1][0]],
                                          "after0": ["%x" % w for w in hc[2][0]]}} if i == 0 and hc[0] == "mcount_exit" else None)
    ycases = []
    for i in range(ctx.n(4, 30)):
        for hc in run_hook_vec(h, ctx.rng):
            ycases.append(hc)
            ctx.case(key=("hookvec", hc[1], tuple(hc[2])), tags=["hookvec:%s:level=%d" % (hc[1], hc[0]), "mxcsr:rc=%d" % ((hc[4] >> 13) & 3)])
    tcases = []
    nstop = ctx.n(18, 200)
    for i in range(nstop + ctx.n(8, 60)):
        kinds = None
        if i < nstop:
            tree = gen_tree(ctx.rng, ["tail", "pg", "plttail", "plt", "deep"][i % 5], maxd=4, budget=10)
            c = run_stop_case(h, tree, ctx.rng)
        else:                                # every mix of hook kinds on one slot, finish met by the slot's first exit hook
            tree, cut, kinds = gen_chain_tree(ctx.rng)
            c = run_stop_case(h, tree, type("Cut", (), {"choice": staticmethod(lambda l, cut=cut: cut if cut in l else l[0])})())
        if c is None:
            continue
        if c["crashed"]:
            ctx.violation("libmcount crashed when a function returned after tracing was told to finish",
                          {"kind": "stop", "tree": json_tree(tree), "cut": c["cut"], "stderr": c["stderr"]}, True)
            continue
        tcases.append(c)
        ctx.case(key=("stop", coq_tree(tree), c["cut"]), tags=["finish:in-process"] + (["finish:shared-slot-kinds=" + kinds] if kinds else []) +
                 (["finish:tail-called-returns"] if "URet 1 (Real" in c["obs"] and any(o[0] == "E" and o[2] == c["slot"] for o in c["ops"][-1:]) else []))
    ecases = []
    for i in range(ctx.n(16, 200)):
        tree = gen_tree(ctx.rng, SHAPES[i % len(SHAPES)], maxd=ctx.rng.choice([3, 5]), budget=ctx.rng.choice([6, 14]))
        c = run_est_case(h, tree)
        if c["crashed"]:
            ctx.violation("libmcount crashed while driving a call tree under --estimate-return",
                          {"kind": "est", "tree": json_tree(tree), "stderr": c["stderr"]}, True)
            continue
        ecases.append(c)
        tags = set(["estimate-return"])
        tree_tags(c["tree"], tags)
        ctx.case(key=("est", coq_tree(c["tree"])), tags=sorted("est:" + t for t in tags if not t.startswith("leaf")))
    dcases = []
    for i in range(ctx.n(10, 120)):
        nth = ctx.rng.choice([2, 2, 3, 4])
        trees = [gen_tree(ctx.rng, ctx.rng.choice(["pg", "tail", "plt", "cygpg", "mixed"]), maxd=4, budget=8) for _ in range(nth)]
        c = run_sched_case(h, trees, ctx.rng)
        if c["crashed"]:
            ctx.violation("libmcount crashed while several threads drove call trees",
                          {"kind": "sched", "trees": [json_tree(t) for t in trees], "stderr": c["stderr"]}, True)
            continue
        dcases.append(c)
        ctx.case(key=("sched", tuple(coq_tree(t) for t in trees), tuple(t for t, _ in c["sched"])),
                 tags=["threads=%d" % nth, "schedule:switches=%s" % ("many" if sum(1 for a, b in zip(c["sched"], c["sched"][1:]) if a[0] != b[0]) > 10 else "few")],
                 size=len(c["sched"]))
    lcases = []
    for i in range(ctx.n(14, 150)):
        pre, cut, posts = gen_life_case(ctx.rng)
        c = run_life_case(h, pre, cut, posts)
        lcases.append(c)
        traced = any(o[0] == "E" and o[1] != "N" for o in c.get("pre_ops", []))
        ctx.case(key=("life", coq_tree(pre), cut, tuple(coq_tree(t) for t in posts)),
                 tags=["life:rounds=%d" % len(posts), "life:open-frames-at-exit" if cut < len(full(pre)[0]) else "life:returned",
                       "life:alive-then-torn-down" if traced else "life:first-met-in-destructor"])
    evaluate_life(ctx, lcases)
    ctx.log("ran %d call trees, %d xmm-pair, %d hook-call xmm, %d finish, %d estimate-return and %d thread-schedule cases on libmcount"
            % (len(scases), len(xcases), len(hcases), len(tcases), len(ecases), len(dcases)))
    res = evaluate(ctx, [c for c in scases if not c["crashed"]], xcases, hcases=hcases, tcases=tcases, ecases=ecases, dcases=dcases,
                   ycases=ycases)
    ctx.log("model evaluated in Coq:", {k: v for k, v in (res or {}).items() if v} or "all agree, all accepted")
    verdict(ctx, [c for c in scases if not c["crashed"]], xcases, res, hcases, tcases, ecases, dcases, ycases)
    # ---- monitors
    objdump_monitor(ctx, objdir)
    ctx.log("objdump monitor done")
    n_e2e = e2e(ctx, objdir)
    ctx.log("end-to-end: %d traced/native pairs" % n_e2e)
    ctx.extra["e2e_runs"] = n_e2e
    ctx.extra["shadow_cases"] = len(scases)
    ctx.extra["xmm_cases"] = len(xcases)


def verdict(ctx, scases, xcases, res, hcases=(), tcases=(), ecases=(), dcases=(), ycases=()):
    if res is None:
        return
    for i in res.get("y_violations", [])[:3]:
        lv, hk, b, a, c0, c1 = ycases[i]
        ctx.violation("C01 violated: %s does not give back every bit of vector registers 0-7 (%s) or MXCSR (%#x -> %#x) when libc "
                      "code it reaches uses the vector unit and ends with vzeroupper (vector arguments / return values / "
                      "floating-point environment of the traced function)" % (hk, ["xmm", "ymm", "zmm"][lv], c0, c1),
                      {"kind": "hookxmm", "hook": hk, "before": [list(map(hex, p)) for p in b],
                       "after": [list(map(hex, p)) for p in a]}, True)
    if res.get("y_mismatch") and not res.get("y_violations"):
        lv, hk, b, a, c0, c1 = ycases[res["y_mismatch"][0]]
        ctx.violation("hook-call vector contract (Model.hook_call_vec with the generated wrappers and pairs) and the real %s disagree" % hk,
                      {"kind": "hookxmm", "hook": hk, "before": [list(map(hex, p)) for p in b],
                       "after": [list(map(hex, p)) for p in a]}, False)
    for i in res.get("d_violations", [])[:3]:
        c = dcases[i]
        ctx.violation("C01 violated with several threads: a return did not go to its real caller or errno changed",
                      {"kind": "sched", "trees": [json_tree(t) for t in c["trees"]], "schedule": [t for t, _ in c["sched"]],
                       "observed": c["obs"][:200]}, True)
    if res.get("d_mismatch") and not res.get("d_violations"):
        c = dcases[res["d_mismatch"][0]]
        ctx.violation("per-thread shadow-stack model (Shadow.run_sched) and libmcount disagree on %d thread schedules" % len(res["d_mismatch"]),
                      {"kind": "sched", "trees": [json_tree(t) for t in c["trees"]], "schedule": [t for t, _ in c["sched"]],
                       "observed": c["obs"][:200]}, False)
    for i in res.get("e_violations", [])[:3]:
        c = ecases[i]
        ctx.violation("C01 violated under --estimate-return: a return did not go to its real caller, errno changed or a "
                      "return-address slot was written",
                      {"kind": "est", "tree": json_tree(c["tree"]), "observed": [(u, idx, ws) for (u, idx, ws) in c["obs"]][:200]}, True)
    if res.get("e_mismatch") and not res.get("e_violations"):
        c = ecases[res["e_mismatch"][0]]
        ctx.violation("--estimate-return model (Shadow.run_op_est / inject_return) and libmcount disagree on %d call trees "
                      "(mtd.idx / slots)" % len(res["e_mismatch"]),
                      {"kind": "est", "tree": json_tree(c["tree"]), "observed": [(u, idx, ws) for (u, idx, ws) in c["obs"]][:200]}, False)
    for i in res.get("t_violations", [])[:3]:
        c = tcases[i]
        ctx.violation("C01 violated: after tracing was told to finish, a traced function did not return to its real "
                      "caller (exit hook handed back %s, real return address id %d)" % (c["obs"], c["expect"]),
                      {"kind": "stop", "tree": json_tree(c["tree"]), "cut": c["cut"], "observed": c["raw"]}, True)
    if res.get("t_mismatch") and not res.get("t_violations"):
        c = tcases[res["t_mismatch"][0]]
        ctx.violation("finish model (Shadow.exit_stop) and libmcount disagree on %d cases" % len(res["t_mismatch"]),
                      {"kind": "stop", "tree": json_tree(c["tree"]), "cut": c["cut"], "observed": c["raw"]}, False)
    for i in res.get("h_violations", [])[:3]:
        hk, b, a, _ = hcases[i]
        ctx.violation("C01 violated: %s does not give back xmm0-7 when a libc function it reaches uses the xmm "
                      "registers (floating-point arguments / return values of the traced function)" % hk,
                      {"kind": "hookxmm", "hook": hk, "before": [list(map(hex, p)) for p in b],
                       "after": [list(map(hex, p)) for p in a]}, True)
    if res.get("h_mismatch") and not res.get("h_violations"):
        hk, b, a, _ = hcases[res["h_mismatch"][0]]
        ctx.violation("hook-call xmm contract (Machine.c_call_xmm with the generated wrappers) and the real %s disagree" % hk,
                      {"kind": "hookxmm", "hook": hk, "before": [list(map(hex, p)) for p in b],
                       "after": [list(map(hex, p)) for p in a]}, False)
    for i in res["s_violations"][:3]:
        c = scases[i]
        ctx.violation("C01 violated: a traced function did not return to its real caller / errno changed / the shadow "
                      "stack was left non-empty (real libmcount on a generated call tree)",
                      {"kind": "shadow", "tree": json_tree(c["tree"]), "env": c["env"],
                       "observed": [(u, idx, ws) for (u, idx, ws) in c["obs"]][:200]}, True)
    for i in res["x_violations"][:3]:
        v, b, cl, a = xcases[i]
        ctx.violation("C01 violated: mcount_save_arch_context/mcount_restore_arch_context do not give back %s "
                      "(argument/return registers of the traced function)" % ["xmm0-7", "all 256 bits of ymm0-7", "all 512 bits of zmm0-7"][v],
                      {"kind": "xmm", "before": [list(map(hex, p)) for p in b], "clobber": [list(map(hex, p)) for p in cl],
                       "after": [list(map(hex, p)) for p in a]}, True)
    if res["s_mismatch"] and not res["s_violations"]:
        c = scases[res["s_mismatch"][0]]
        ctx.violation("shadow-stack model and libmcount disagree on %d call trees (slot contents / mtd.idx / exits); "
                      "the property checker accepts libmcount's behaviour on every explored case" % len(res["s_mismatch"]),
                      {"kind": "shadow", "correspondence": "C01/Shadow.v vs libmcount/{mcount,misc}.c",
                       "tree": json_tree(c["tree"]), "env": c["env"],
                       "observed": [(u, idx, ws) for (u, idx, ws) in c["obs"]][:200]}, False)
    if res["x_mismatch"] and not res["x_violations"]:
        v, b, cl, a = xcases[res["x_mismatch"][0]]
        ctx.violation("arch-context model (generated from mcount-support.c) and the real pair disagree",
                      {"kind": "xmm", "before": [list(map(hex, p)) for p in b], "clobber": [list(map(hex, p)) for p in cl],
                       "after": [list(map(hex, p)) for p in a]}, False)
    ctx.extra["disagreements_checked"] = len(res["s_mismatch"]) + len(res["x_mismatch"]) + len(res.get("h_mismatch", []))


def replay(ctx, obj):
    common_meta(ctx)
    coq.prove(ctx, "C01")
    objdir = build.get_build("plain", ctx.log)
    kind = obj.get("kind")
    if kind == "shadow":
        h = Harness(ctx, objdir)
        c = run_shadow_case(h, tree_of_json(obj["tree"]), obj.get("env") or {})
        ctx.case(key="replay", sample={"observed": c["obs"][:50]})
        if c["crashed"]:
            ctx.violation("libmcount crashed while replaying the call tree", {"kind": "shadow", "tree": obj["tree"],
                                                                             "env": obj.get("env"), "stderr": c["stderr"]}, True)
            return
        res = evaluate(ctx, [c], [], name="replay")
        ctx.log("replayed shadow case:", res)
        verdict(ctx, [c], [], res)
    elif kind == "xmm":
        h = Harness(ctx, objdir)
        before = [tuple(int(x, 16) for x in p) for p in obj["before"]]
        clobber = [tuple(int(x, 16) for x in p) for p in obj["clobber"]]
        avx, after = run_xmm(h, before, clobber)
        ctx.case(key="replay", sample={"after": [list(map(hex, p)) for p in after]})
        res = evaluate(ctx, [], [(avx, before, clobber, after)], name="replay")
        ctx.log("replayed xmm case:", res)
        verdict(ctx, [], [(avx, before, clobber, after)], res)
    elif kind == "est":
        h = Harness(ctx, objdir)
        c = run_est_case(h, tree_of_json(obj["tree"]))
        ctx.case(key="replay", sample={"observed": c["obs"][:50]})
        res = evaluate(ctx, [], [], name="replay", ecases=[c])
        ctx.log("replayed estimate-return case:", res)
        verdict(ctx, [], [], res, (), (), [c])
    elif kind == "stop":
        import random
        h = Harness(ctx, objdir)
        tree = tree_of_json(obj["tree"])
        ops, owner = full(tree)
        class _R:                      # re-cut at the recorded operation
            def choice(self, l):
                return obj["cut"] if obj["cut"] in l else l[0]
        c = run_stop_case(h, tree, _R())
        ctx.case(key="replay", sample={"observed": c and c.get("raw")})
        if c and not c["crashed"]:
            res = evaluate(ctx, [], [], name="replay", tcases=[c])
            ctx.log("replayed finish case:", res)
            verdict(ctx, [], [], res, (), [c])
        elif c:
            ctx.violation("libmcount crashed when a function returned after tracing was told to finish",
                          {"kind": "stop", "tree": obj["tree"], "cut": obj["cut"], "stderr": c["stderr"]}, True)
    elif kind == "hookxmm":
        import random
        h = Harness(ctx, objdir)
        hcs = run_hook_xmm(h, random.Random(1))
        ctx.case(key="replay", sample={"after0": [hex(w) for w in hcs[0][2][0]]})
        res = evaluate(ctx, [], [], name="replay", hcases=hcs)
        ctx.log("replayed hook-call xmm cases:", res)
        verdict(ctx, [], [], res, hcs)
    elif kind == "life":
        h = Harness(ctx, objdir)
        c = run_life_case(h, tree_of_json(obj["pre"]), obj["cut"], [tree_of_json(t) for t in obj["posts"]])
        ctx.case(key="replay", sample={"observed": c.get("raw", [])[:50]})
        evaluate_life(ctx, [c], name="replay_life")
    elif kind == "e2e":
        work = os.path.join(ctx.scratch, "e2e")
        os.makedirs(work, exist_ok=True)
        src = obj.get("source") or make_prog(obj["params"])[0]
        if obj.get("files"):
            MULTI["replay"] = {"files": obj["files"], "build": obj["build"]}
        exe = compile_prog(work, "replay", src, obj["mode"], obj["opt"])
        nat = run_native(exe, os.path.join(work, "nat.out"))
        tr = run_traced(objdir, exe, obj["mode"], option_sets(ctx.scratch)[obj["optset"]], os.path.join(work, "d"),
                        obj.get("live", False))
        problems = e2e_compare(nat, tr, obj.get("live", False), status_unreliable=(obj["optset"] == "finish"))
        ctx.case(key="replay", sample={"native_exit": nat[0], "traced_exit": tr[3], "problems": problems})
        ctx.log("replayed e2e case:", problems or "identical")
        if problems:
            ctx.violation("C01 violated end-to-end (replay): " + "; ".join(problems),
                          {"kind": "e2e", "params": obj.get("params"), "mode": obj["mode"], "opt": obj["opt"],
                           "optset": obj["optset"], "source": src}, True)
    else:
        ctx.log("replay file names no executable case (kind=%r); proofs re-checked only" % kind)
