"""C19 - Python programs are traced at function granularity with balanced calls.

Theorems: coq/theories/Properties_C19.v (model of python/trace-python.c: init_filters,
apply_filters, can_trace, the event dispatch, function naming and the pseudo-address table; the
pairing done by libmcount's cygprof entry/exit).

Tie, line 1 (scripted): the REAL uftrace_python.so of the scratch build is loaded into python3
together with a libmcount stand-in that logs the hook calls; harness/py/c19_driver.py feeds
generated profile-event streams (well-formed forests and ill-formed tails) to
uftrace_python.trace().  Hook calls and the written python.fake.sym are compared with the model
inside Coq (`agrees`), and the structural specification `select` judges the implementation's
output (`ok_case`).

Tie, line 2 (end-to-end): generated Python programs that keep their own call log (no
sys.setprofile, no calls: `LOG += [...]`) run natively and under the real `uftrace record` for the
three libcall modes and filter options; stdout/exit status must be equal, `uftrace replay` must be
the forest `select` predicts from the program's own log.
"""
import json
import os
import re
import shutil
import subprocess
import sys

from vf import build, coq
from vf.core import REPO, VERIF, sh

HERE = os.path.dirname(os.path.abspath(__file__))

# --------------------------------------------------------------------------- Coq literals
def cs(s):
    return coq.coq_string(s) + "%N" if s else "[]"


def c_opt(s):
    return "None" if s is None else "(Some %s)" % cs(s)


def c_func(f):
    if f["t"] == "py":
        return "PyF %s %s %s" % (c_opt(f.get("mod")), cs(f["qual"]), cs(f["file"]))
    return "CF %s %s" % (c_opt(f.get("mod")), cs(f["qual"]))


def c_iforest(trees):
    """list of (idx, exc, kids) -> first-child/next-sibling term"""
    if not trees:
        return "INil"
    (i, exc, kids), rest = trees[0], trees[1:]
    return "(INode %d %s %s %s)" % (i, coq.coq_bool(exc), c_iforest(kids), c_iforest(rest))


KIND = {"call": "Call", "return": "Return", "c_call": "CCall", "c_return": "CReturn", "c_exception": "CException"}
LIB = {"NONE": "LNone", "SINGLE": "LSingle", "NESTED": "LNested"}
PATT = {None: "PRegex", "regex": "PRegex", "bogus": "PRegex", "glob": "PGlob", "simple": "PSimple"}


def c_case(k):
    env = "None" if k["env"] is None else "(Some [%s])" % "; ".join(cs(p) for p in k["env"])
    return ("{| k_patt := %s; k_env := %s; k_lib := %s; k_pymain := %s;\n   k_funcs := [%s];\n   k_forests := [%s];\n   k_raw := [%s];\n"
            "   k_hooks := [%s];\n   k_symtab := [%s] |}") % (
        PATT[k.get("patt")], env, LIB[k["lib"]], c_opt(k["pymain"]),
        "; ".join(c_func(f) for f in k["rfuncs"]),
        "; ".join(c_iforest([t]) for t in k["forest"]),
        "; ".join("(%s, %d%%nat)" % (KIND[kd], i) for kd, i in k["raw"]),
        "; ".join("KE %d%%N" % h[1] if h[0] == "E" else "KX" for h in k["hooks"]),
        "; ".join("{| s_name := %s; s_lib := %s |}" % (cs(n), coq.coq_bool(l)) for n, l in k["symtab"]))


PRE = """From Coq Require Import ZArith NArith List Bool.
Import ListNotations.
Require Import UV.C19.Model UV.C19.SymFile.
"""


# --------------------------------------------------------------------------- generator (scripted)
MAIN = "/m/d/s.py"
CPOOL = ["len", "abs", "sorted", "max", "id", "repr", "os.getpid", "os.getcwd", "math.sqrt", "math.floor",
         "time.time", "[].append", "{}.get", "''.join", "sys.getrecursionlimit"]


def py(mod, qual, file, **kw):
    d = {"t": "py", "mod": mod, "qual": qual, "file": file}
    d.update(kw)
    return d


def func_universe(rng, pymain):
    u = []
    mainfile = pymain or MAIN
    for q in ["fa", "fb", "fc", "K.m", "o.<locals>.i", "<lambda>", "<module>", "fab"]:
        u.append((py("__main__", q, mainfile), "main"))
    u.append((py("mm", "ga", "/m/d/mm.py"), "maindir"))
    u.append((py("mm", "<module>", "/m/d/mm.py"), "maindir"))
    u.append((py("pk.sub", "gb", "/m/d/pk/sub.py"), "maindir-sub"))
    u.append((py("json", "dumps", "/u/l/json.py"), "libpy"))
    u.append((py("lb", "ha", "/u/l/lb.py"), "libpy"))
    u.append((py("lb", "hb", "/u/l/lb.py"), "libpy"))
    u.append((py("lx", "hc", "/m/dx/lx.py"), "dir-prefix-not-dir"))
    u.append((py("ly", "hd", "/m/d"), "file-equals-dir"))
    u.append((py(None, "na", "/m/d/n.py"), "no-modname-maindir"))
    u.append((py(None, "nb", "/u/l/n.py", modkind="int"), "modname-not-str"))
    u.append((py("builtins", "fa", "/u/l/b.py"), "libpy"))
    if rng.random() < 0.15:
        # two functions with one name and different library flags: the first one seen wins
        u.append((py(None, "mm.ga", "/u/l/x.py"), "name-collision"))
        u.append((py(None, "lb.ha", "/m/d/y.py"), "name-collision"))
    for e in CPOOL:
        u.append(({"t": "c", "expr": e}, "cfunc"))
    return u


def fname_guess(f):
    """approximate name, only used to derive filter patterns (the model computes the real one)"""
    if f["t"] == "py":
        if f.get("mod") is None:
            return f["qual"]
        if f["mod"] == "__main__" and f["qual"] != "<module>":
            return f["qual"]
        return f["mod"] + "." + f["qual"]
    e = f["expr"]
    return {"os.getpid": "posix.getpid", "os.getcwd": "posix.getcwd", "[].append": "list.append",
            "{}.get": "dict.get", "''.join": "str.join"}.get(e, e if "." in e else "builtins." + e)


def gen_pattern(rng, names):
    n = rng.choice(names)
    k = rng.randrange(8)
    if k <= 2:
        p = n                                  # whole name: strcmp unless it has a regex char ('.')
    elif k == 3:
        p = "^" + n[:rng.randrange(1, min(4, len(n)) + 1)]
    elif k == 4:
        p = n[-rng.randrange(1, min(4, len(n)) + 1):] + "$"
    elif k == 5:
        i = rng.randrange(len(n))
        p = n[:i] + "." + n[i + 1:]
    elif k == 6:
        i = rng.randrange(len(n))
        p = n[i:i + rng.randrange(1, 5)]
        if not any(c in ".^$" for c in p):
            p = "." + p if rng.random() < 0.5 else p + "."
    else:
        p = "^" + n + "$"
    p = "".join(c for c in p if c not in "?*+-|()[]{}\\;!@")
    return swapcase(rng, p or n)


def swapcase(rng, p):
    """now and then a pattern that differs from the name in the case of one letter (matching is case sensitive)"""
    idx = [i for i, c in enumerate(p) if c.isalpha()]
    if idx and rng.random() < 0.12:
        i = rng.choice(idx)
        p = p[:i] + p[i].swapcase() + p[i + 1:]
    return p


def gen_glob(rng, names):
    """fnmatch patterns within the modelled subset: '*', '?', literals ('.', '^', '$', '<' are literals)"""
    n = rng.choice(names)
    k = rng.randrange(7)
    if k == 0:
        p = n[:rng.randrange(1, min(4, len(n)) + 1)] + "*"
    elif k == 1:
        p = "*" + n[-rng.randrange(1, min(5, len(n)) + 1):]
    elif k == 2:
        i = rng.randrange(len(n))
        p = n[:i] + "?" + n[i + 1:]
    elif k == 3:
        i, j = sorted((rng.randrange(len(n) + 1), rng.randrange(len(n) + 1)))
        p = n[:i] + "*" + n[j:]
    elif k == 4:
        p = "*" + n[rng.randrange(len(n)):][:3] + "*"
    elif k == 5:
        p = rng.choice(["*", "?*", "*.*", n + "*", n + "?", "**" + n[1:]])
    else:
        p = n
    p = "".join(c for c in p if c not in "[]\\;!@")
    return swapcase(rng, p or n)


def gen_forest(rng, nf, is_c, budget, maxdepth):
    def node(d):
        budget[0] -= 1
        i = rng.randrange(nf)
        kids = []
        if d < maxdepth:
            for _ in range(rng.choice([0, 0, 1, 1, 2, 3])):
                if budget[0] <= 0:
                    break
                kids.append(node(d + 1))
        return (i, is_c[i] and rng.random() < 0.3, kids)
    trees = []
    for _ in range(rng.choice([1, 1, 2, 3])):
        if budget[0] <= 0:
            break
        trees.append(node(1))
    return trees


def flatten(funcs, trees, out):
    for i, exc, kids in trees:
        c = funcs[i]["t"] == "c"
        out.append(("c_call" if c else "call", i))
        flatten(funcs, kids, out)
        out.append((("c_exception" if exc else "c_return") if c else "return", i))
    return out


def gen_case(rng, allow_mixed=True):
    pymain = rng.choice([MAIN, MAIN, MAIN, MAIN, "/s.py", None])
    uni = func_universe(rng, pymain)
    picks = rng.sample(uni, rng.randrange(3, 9))
    if not any(t == "cfunc" for _, t in picks):
        picks.append(rng.choice([x for x in uni if x[1] == "cfunc"]))
    funcs = [p[0] for p in picks]
    tags = set("fn:" + p[1] for p in picks)
    names = [fname_guess(f) for f in funcs]
    patt = rng.choice([None, None, None, None, "glob", "glob", "simple", "regex", "bogus"])
    r = rng.random()
    if r < 0.22:
        env = None
    elif r < 0.27:
        env = [""]          # UFTRACE_FILTER="" : strv_split gives one empty pattern (opt-in, matches nothing)
    else:
        kind = rng.choice(["F", "F", "N", "N", "FN"] if allow_mixed else ["F", "N"])
        n = rng.choice([1, 1, 2, 3])
        env = []
        for j in range(n):
            p = gen_glob(rng, names) if patt == "glob" and rng.random() < 0.8 else gen_pattern(rng, names)
            out = (kind == "N") or (kind == "FN" and (j % 2 == 1 or rng.random() < 0.3))
            env.append(("!" if out else "") + p)
        if kind == "FN" and not any(e.startswith("!") for e in env):
            env.append("!" + gen_pattern(rng, names))
        if kind == "FN" and all(e.startswith("!") for e in env):
            env.insert(0, gen_pattern(rng, names))
    lib = rng.choice(["NONE", "SINGLE", "SINGLE", "NESTED"])
    is_c = [f["t"] == "c" for f in funcs]
    forest = gen_forest(rng, len(funcs), is_c, [rng.choice([3, 6, 10, 16])], rng.choice([2, 4, 7]))
    raw = []
    r = rng.random()
    if r < 0.25:
        if rng.random() < 0.3:
            forest = []
        for _ in range(rng.randrange(1, 9)):
            i = rng.randrange(len(funcs))
            raw.append((rng.choice(["c_call", "c_return", "c_exception"] if is_c[i] else ["call", "return", "return"]), i))
    elif r < 0.4 and not all(is_c):
        # the script ended by an exception: frames entered before tracing started return (runpy)
        pys = [i for i in range(len(funcs)) if not is_c[i]]
        raw = [("return", rng.choice(pys)) for _ in range(rng.randrange(1, 4))]
        tags.add("returns-of-frames-never-called")
    tags.add("patt:" + str(patt))
    fresh = rng.random() < 0.5
    if fresh:
        tags.add("code-objects-recreated-per-event")
    return {"fresh": fresh, "patt": patt, "env": env, "lib": lib, "pymain": pymain, "funcs": funcs, "forest": forest, "raw": raw,
            "tags": sorted(tags)}


WITNESSES = [
    # tests/s-abc.py with -F a -N .getpid (below the module frame): was unbalanced before fix 5445264
    {"env": ["a", "!.getpid"], "lib": "SINGLE", "pymain": MAIN,
     "funcs": [py("__main__", "a", MAIN), py("__main__", "b", MAIN), py("__main__", "c", MAIN), {"t": "c", "expr": "os.getpid"}],
     "forest": [(0, False, [(1, False, [(2, False, [(3, False, [])])])])], "raw": [], "tags": ["witness:-F a -N .getpid"]},
    # the same inside a library call (libcall_count drift)
    {"env": ["a", "!.getpid"], "lib": "SINGLE", "pymain": MAIN,
     "funcs": [py("__main__", "a", MAIN), py("__main__", "b", MAIN), {"t": "c", "expr": "sorted"}, {"t": "c", "expr": "os.getpid"},
               {"t": "c", "expr": "len"}],
     "forest": [(0, False, [(2, False, [(1, False, [(3, False, []), (4, False, [])])])])], "raw": [], "tags": ["witness:drift"]},
    # a(){ sys.exit() } then the returns of the two runpy frames: were two unpaired exits before fix d27b480
    {"env": None, "lib": "SINGLE", "pymain": MAIN,
     "funcs": [py("__main__", "a", MAIN), {"t": "c", "expr": "sys.exit"}, py("runpy", "_run_code", "/u/l/runpy.py"),
               py("runpy", "_run_module_as_main", "/u/l/runpy.py")],
     "forest": [(0, False, [(1, True, [])])], "raw": [("return", 2), ("return", 3)], "tags": ["witness:sys.exit-runpy-returns"]},
    {"env": None, "lib": "NESTED", "pymain": MAIN,
     "funcs": [py("__main__", "a", MAIN), {"t": "c", "expr": "sys.exit"}, py("runpy", "_run_code", "/u/l/runpy.py"),
               py("runpy", "_run_module_as_main", "/u/l/runpy.py")],
     "forest": [(0, False, [(1, True, [])])], "raw": [("return", 2), ("return", 3)], "tags": ["witness:sys.exit-runpy-returns"]},
]


def forest_tags(k):
    t = set(k["tags"])
    funcs = k["funcs"]
    def lib(i):
        f = funcs[i]
        return f["t"] == "c" or not (f.get("mod") == "__main__" or (k["pymain"] and f["file"].startswith(os.path.dirname(k["pymain"]).rstrip("/") + "/")))
    def walk(trees, anc):
        for i, exc, kids in trees:
            if exc:
                t.add("c_exception")
            if i in anc:
                t.add("recursion")
            if lib(i) and any(lib(a) for a in anc):
                t.add("lib-under-lib")
            if not lib(i) and any(lib(a) for a in anc):
                t.add("callback-under-lib")
            if len(anc) >= 4:
                t.add("depth>=5")
            walk(kids, anc + [i])
    walk(k["forest"], [])
    env = k["env"]
    t.add("filter:" + ("none" if env is None else "empty" if env == [""] else
                       "mixed" if any(e.startswith("!") for e in env) and not all(e.startswith("!") for e in env)
                       else "N" if env[0].startswith("!") else "F"))
    t.add("lib:" + k["lib"])
    t.add("pymain:" + ("unset" if k["pymain"] is None else "root" if k["pymain"] == "/s.py" else "dir"))
    if k["raw"] and not all(kd == "return" for kd, _ in k["raw"]):
        t.add("ill-formed-tail")
    if not k["forest"]:
        t.add("no-forest")
    return sorted(t)


# --------------------------------------------------------------------------- running the implementation (scripted)
class Impl:
    def __init__(self, ctx, objdir):
        self.ctx, self.objdir = ctx, objdir
        self.dir = os.path.join(ctx.scratch, "drv")
        os.makedirs(self.dir, exist_ok=True)
        self.fake = os.path.join(self.dir, "libmcount-c19fake.so")
        rc, o, e = sh(["gcc", "-shared", "-fPIC", "-O1", "-w", "-o", self.fake,
                       os.path.join(VERIF, "harness/c/c19_fakemcount.c")])
        if rc != 0:
            raise RuntimeError("cannot build libmcount stand-in: " + e[-2000:])
        self.driver = os.path.join(VERIF, "harness/py/c19_driver.py")
        self.pyso = os.path.join(objdir, "python")
        if not os.path.exists(os.path.join(self.pyso, "uftrace_python.so")):
            raise RuntimeError("scratch build has no python/uftrace_python.so")

    def run(self, k):
        d = os.path.join(self.dir, "out")
        shutil.rmtree(d, ignore_errors=True)
        os.makedirs(d)
        events = flatten(k["funcs"], k["forest"], []) + list(k["raw"])
        json.dump({"funcs": k["funcs"], "events": events, "fresh_objects": bool(k.get("fresh"))},
                  open(os.path.join(d, "case.json"), "w"))
        env = {k_: v for k_, v in os.environ.items() if not k_.startswith("UFTRACE_")}
        env.update({"UFTRACE_SHMEM": "1", "UFTRACE_DIR": d, "C19_HOOKLOG": os.path.join(d, "hooks"),
                    "LD_PRELOAD": self.fake, "PYTHONPATH": self.pyso, "PYTHONDONTWRITEBYTECODE": "1"})
        if k["pymain"] is not None:
            env["UFTRACE_PYMAIN"] = k["pymain"]
        if k["env"] is not None:
            env["UFTRACE_FILTER"] = ";".join(k["env"])
        if k.get("patt"):
            env["UFTRACE_PATTERN"] = k["patt"]
        if k["lib"] != "SINGLE":
            env["UFTRACE_PY_LIBCALL"] = k["lib"]
        try:
            p = subprocess.run(["timeout", "20", sys.executable, self.driver, os.path.join(d, "case.json"),
                                os.path.join(d, "out.json")], env=env, capture_output=True, text=True, timeout=40, cwd=d)
            rc, err = p.returncode, p.stdout[-1500:] + p.stderr[-1500:]
        except subprocess.TimeoutExpired:
            rc, err = 124, "timeout"
        res = {"rc": rc, "err": err, "hooks": [], "symtab": [], "rfuncs": k["funcs"], "hook_parent_nonzero": False}
        if rc != 0:
            return res
        res["rfuncs"] = json.load(open(os.path.join(d, "out.json")))["funcs"]
        hp = os.path.join(d, "hooks")
        if os.path.exists(hp):
            for line in open(hp):
                w = line.split()
                res["hooks"].append((w[0], int(w[1])))
                if w[0] == "X" and int(w[1]) != 0 or int(w[2]) != 0:
                    res["hook_parent_nonzero"] = True
        sp = os.path.join(d, "python.fake.sym")
        res["symfile_ok"] = False
        res["symbytes"] = b""
        if os.path.exists(sp):
            res["symbytes"] = open(sp, "rb").read()
            lines = res["symbytes"].decode("latin-1").split("\n")
            body = [l for l in lines if l and not l.startswith("#")]
            ok = len(body) >= 1 and body[-1].split(" ", 2)[2] == "__sym_end"
            expect = 1
            for l in body[:-1]:
                a, t, n = l.split(" ", 2)
                if int(a, 16) != expect or t not in "TP" or len(a) != 16:
                    ok = False
                expect += 1
                res["symtab"].append((n, t == "P"))
            if ok and int(body[-1].split(" ", 2)[0], 16) != expect:
                ok = False
            hdr = [l for l in lines if l.startswith("#")]
            if not hdr or hdr[0] != "# symbols: %d" % len(res["symtab"]):
                ok = False
            res["symfile_ok"] = ok
        return res


def case_json(k):
    return {kk: k.get(kk) for kk in ("fresh", "patt", "env", "lib", "pymain", "funcs", "forest", "raw")}


def evaluate(ctx, cases, name="cases"):
    defs = "Definition cases : list case := [\n%s\n].\n" % ";\n".join(c_case(k) for k in cases)
    # judged by the specification: well-formed streams, also when followed by returns of frames that were never
    # called under the profiler (a script ended by an exception)
    # ... over a function table whose names determine the symbols (hypotheses of C19_trace_python_spec)
    defs += ("Definition wf (k : case) : bool := forallb (fun p => match fst p with Return => true | _ => false end) (k_raw k)"
             " && consistentb (option_map main_dir_of (k_pymain k)) (k_funcs k).\n")
    # the bytes of python.fake.sym must be the rendering of the table (C19_symfile_roundtrip then gives the names
    # and addresses every reader gets back; the Python-side parse of the file is not trusted)
    defs += "Definition files : list (list N) := [\n%s\n].\n" % ";\n".join(cs(k.get("symbytes", b"")) for k in cases)
    res = coq.run_cases(ctx, name, PRE, defs, [
        ("symfile", "bad_indices (fun p => bytes_eqb (render_symtab (k_symtab (fst p))) (snd p)) (combine cases files) 0"),
        ("mismatch", "bad_indices agrees cases 0"),
        ("violations", "bad_indices (fun k => negb (wf k) || ok_case k) cases 0"),
        ("unbalanced", "bad_indices (fun k => negb (wf k) || ok_balanced k) cases 0"),
        ("not_judged", "bad_indices wf cases 0"),
    ])
    if res is None:
        return None
    return {k: coq.parse_nat_list(v) for k, v in res.items()}


def scripted(ctx, objdir):
    rng = ctx.rng
    impl = Impl(ctx, objdir)
    cases = [dict(w) for w in WITNESSES]
    n = ctx.n(200, 1500)
    for i in range(n):
        cases.append(gen_case(rng))
    for k in cases:
        r = impl.run(k)
        k.update({"hooks": r["hooks"], "symtab": r["symtab"], "rfuncs": r["rfuncs"], "rc": r["rc"], "err": r["err"],
                  "symfile_ok": r.get("symfile_ok", False), "hook_parent_nonzero": r["hook_parent_nonzero"],
                  "symbytes": r.get("symbytes", b"")})
    return cases


def scripted_verdict(ctx, cases, res):
    if res is None:
        return
    for i, k in enumerate(cases):
        if k["rc"] != 0:
            ctx.violation("uftrace_python.so failed/crashed on a scripted event stream (rc=%d): %s" % (k["rc"], k["err"][-300:]),
                          {"mode": "scripted", "case": case_json(k)}, True)
            return
        if not k["symfile_ok"]:
            ctx.violation("python.fake.sym written at exit is malformed (addresses not 1..n, header count or __sym_end wrong)",
                          {"mode": "scripted", "case": case_json(k)}, True)
            return
        if k["hook_parent_nonzero"]:
            ctx.violation("hook called with unexpected arguments (exit child / parent not 0)",
                          {"mode": "scripted", "case": case_json(k)}, True)
            return
    viol = sorted(set(res["violations"]) | set(res["unbalanced"]))
    if res.get("symfile"):
        k = cases[res["symfile"][0]]
        ctx.violation("python.fake.sym written at exit is not byte for byte the rendering of the symbol table "
                      "(%d cases): header of 48 bytes, `%%016x %%c %%s` entries, __sym_end" % len(res["symfile"]),
                      {"mode": "scripted", "case": case_json(k), "impl_symtab": k["symtab"],
                       "file": k.get("symbytes", b"").decode("latin-1")}, True)
    for i in viol[:3]:
        k = cases[i]
        what = "unbalanced hook calls" if i in res["unbalanced"] else "trace is not the selected call forest"
        ctx.violation("C19 violated by the real uftrace_python.so on a well-formed event stream: %s "
                      "(filters %s, libcall %s)" % (what, k["env"], k["lib"]),
                      {"mode": "scripted", "case": case_json(k), "impl_hooks": k["hooks"], "impl_symtab": k["symtab"]}, True)
    if res["mismatch"] and not viol:
        k = cases[res["mismatch"][0]]
        ctx.violation("model and implementation of python/trace-python.c disagree on %d scripted event streams; the "
                      "property checker accepts the implementation's output on every explored case" % len(res["mismatch"]),
                      {"mode": "scripted", "correspondence": "C19.Model.trace_python vs uftrace_trace_python",
                       "case": case_json(k), "impl_hooks": k["hooks"], "impl_symtab": k["symtab"]}, False)
    ctx.extra["disagreements_checked"] = ctx.extra.get("disagreements_checked", 0) + len(cases)
    ctx.extra["scripted_cases_judged_by_specification"] = len(cases) - len(res.get("not_judged", []))


# --------------------------------------------------------------------------- entry points
def setup(ctx):
    coq.prove(ctx, "C19")
    objdir = build.get_build("plain", ctx.log)
    return objdir


def common_meta(ctx):
    ctx.rule = ("scripted: a case = (UFTRACE_FILTER, libcall mode, UFTRACE_PYMAIN, 3-9 functions, 1-3 call trees "
                "<= 16 calls [+ ill-formed tail]) fed to the real uftrace_python.trace(); distinct = distinct "
                "(config, event stream); non-trivial = at least one hook call or a filter set.  e2e: a case = "
                "(generated program, options) run natively and under uftrace record + replay")
    ctx.trusted = [
        "Coq 8.16.1 kernel incl. vm_compute; no axioms (Print Assumptions: closed under the global context)",
        "hand-written model coq/theories/C19/Model.v of python/trace-python.c (init_filters, match_filter [ERE subset "
        "^ $ . literals; glob subset * ? literals; simple], apply_filters, can_trace, event dispatch, "
        "get_python_funcname/get_c_funcname, code_tree/symtab) and coq/theories/C19/SymFile.v (write_symtab, line reader), coq/theories/C19/Lazy.v (lazy ENTRY write of libmcount) "
        "incl. the call-depth test (depth_guard)",
        "harness/py/c19_driver.py (synthetic frame objects, real builtin objects), harness/c/c19_fakemcount.c (logs hook calls), "
        "props/c19.py (parser of `uftrace replay` output, program generator; python.fake.sym is compared byte for byte in Coq)",
        "CPython 3.11 profile-event discipline (call/return, c_call/c_return|c_exception) = the forests of the theorems",
    ]
    ctx.assume = [
        "well-formed event streams for the theorems: CPython emits a return for every call (also on exceptions), one "
        "call/return pair per generator resume (also for close()/throw(), observed on 3.11.7), c_return or c_exception for "
        "every c_call; returns of frames entered before sys.setprofile() (runpy, when the script ends by an exception) may follow",
        "single thread (libcall_count and filter_state are process-global by design)",
        "counters do not overflow int (fewer than 2^31 nested calls)",
        "filter patterns within the modelled subsets: regex ^ $ . literals, glob * ? literals (no brackets, no backslash)",
        "function names determine the library flag (a name is created once; later functions with the same name share it)",
    ]


def run(ctx):
    common_meta(ctx)
    objdir = setup(ctx)
    cases = scripted(ctx, objdir)
    ctx.log("scripted: %d event streams run through the real uftrace_python.so" % len(cases))
    res = evaluate(ctx, cases)
    ctx.log("scripted: evaluated in Coq")
    for k in cases:
        ev = flatten(k["funcs"], k["forest"], []) + list(k["raw"])
        ctx.case(key=(k["env"], k["lib"], k["pymain"], json.dumps(k["funcs"], sort_keys=True), tuple(ev)),
                 nontrivial=bool(k["hooks"]) or bool(k["env"]), tags=forest_tags(k), size=len(ev),
                 sample={"filters": k["env"], "libcall": k["lib"], "events": len(ev), "hooks": len(k["hooks"]),
                         "symbols": [n for n, _ in k["symtab"]]} if len(ctx.samples) < 3 and k["hooks"] else None)
    scripted_verdict(ctx, cases, res)
    from props import c19_e2e
    c19_e2e.run(ctx, objdir)


def replay(ctx, obj):
    common_meta(ctx)
    objdir = setup(ctx)
    if obj.get("mode") == "e2e":
        from props import c19_e2e
        c19_e2e.replay(ctx, objdir, obj)
        return
    c = obj.get("case")
    if not c:
        ctx.log("replay file has no case; nothing to re-execute")
        return
    k = dict(c)
    k["forest"] = [tuple_tree(t) for t in k["forest"]]
    k["raw"] = [tuple(x) for x in k["raw"]]
    k["tags"] = []
    r = Impl(ctx, objdir).run(k)
    k.update({"hooks": r["hooks"], "symtab": r["symtab"], "rfuncs": r["rfuncs"], "rc": r["rc"], "err": r["err"],
              "symfile_ok": r.get("symfile_ok", False), "hook_parent_nonzero": r["hook_parent_nonzero"],
              "symbytes": r.get("symbytes", b"")})
    ctx.log("replayed: hooks", k["hooks"], "symtab", k["symtab"])
    ctx.case(key="replay", sample={"hooks": k["hooks"]})
    res = evaluate(ctx, [k], name="replay")
    scripted_verdict(ctx, [k], res)


def tuple_tree(t):
    return (t[0], t[1], [tuple_tree(x) for x in t[2]])
