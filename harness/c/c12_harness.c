/* C12 harness: drives the real byte-level stream reader of utils/fstack.c
 * (open_data_file, fstack_setup_task, read_task_ustack -> __read_task_ustack,
 * read_task_args, read_task_event) - object code of the scratch ASan+UBSan build of
 * /repo's current tree - over every requested truncation of DIR/TID.dat.
 *
 * usage: c12_harness DIR TID FULLFILE  < list of cut lengths (one per line, or "all")
 *
 * For every cut n the file DIR/TID.dat is rewritten with the first n bytes of FULLFILE and a
 * child process reads the task's stream to the end.  Output (stdout), per cut:
 *   CUT n
 *   R time type more depth addr                       (record without payload)
 *   P time type more depth addr len hex(args.data[0..len))   (record with payload)
 *   END eof                                           (read_task_ustack returned -1)
 *   END runaway                                       (more records than n/16 + 4: the reader does not advance)
 *   STATUS n <exit status of the child> <signal>      (the run stops after 3 children died by a signal / 8 s alarm)
 * A child that leaves through pr_err (exit(1)) prints no END line; its stderr goes to
 * DIR/../stderr.n only when it is non-empty (sanitizer reports, diagnostics).
 */
#include <stdio.h>
#include <stdlib.h>
#include <string.h>
#include <unistd.h>
#include <sys/wait.h>
#include <fcntl.h>

#include "uftrace.h"
#include "utils/utils.h"
#include "utils/fstack.h"
#include "utils/filter.h"

extern FILE *logfp, *outfp;

static int c12_read_stream(const char *dir, int tid, long max_records)
{
	long nrec = 0;
	struct uftrace_opts opts = {
		.dirname = (char *)dir,
		.depth = OPT_DEPTH_DEFAULT,
		.max_stack = OPT_RSTACK_DEFAULT,
	};
	struct uftrace_data handle;
	struct uftrace_task_reader *task;
	unsigned i;

	if (open_data_file(&opts, &handle) < 0) {
		printf("END open-failed\n");
		fflush(stdout);
		return 3;
	}
	fstack_setup_task(NULL, &handle);
	task = get_task_handle(&handle, tid);
	if (task == NULL) {
		printf("END no-task\n");
		fflush(stdout);
		return 4;
	}
	while (read_task_ustack(&handle, task) == 0) {
		struct uftrace_record *r = &task->ustack;

		/* a file of n bytes holds at most n/16 records: more means the reader does not advance */
		if (++nrec > max_records) {
			printf("END runaway\n");
			fflush(stdout);
			return 5;
		}

		if (r->more) {
			printf("P %llu %u %u %u %llu %d ", (unsigned long long)r->time, r->type, r->more,
			       r->depth, (unsigned long long)r->addr, task->args.len);
			/* exactly the bytes the reader declares valid */
			for (i = 0; i < (unsigned)task->args.len; i++)
				printf("%02x", ((unsigned char *)task->args.data)[i]);
			printf("\n");
		}
		else {
			printf("R %llu %u %u %u %llu\n", (unsigned long long)r->time, r->type, r->more,
			       r->depth, (unsigned long long)r->addr);
		}
		fflush(stdout);
		task->valid = false;
	}
	printf("END eof\n");
	fflush(stdout);
	return 0;
}

int main(int argc, char **argv)
{
	char path[4096], line[64], errp[4096];
	unsigned char *full;
	long size;
	int tid, nsig = 0;
	FILE *f;

	if (argc < 4)
		return 2;
	logfp = stderr;
	outfp = stdout;
	tid = atoi(argv[2]);
	f = fopen(argv[3], "rb");
	if (!f)
		return 2;
	fseek(f, 0, SEEK_END);
	size = ftell(f);
	fseek(f, 0, SEEK_SET);
	full = malloc(size + 1);
	if (fread(full, 1, size, f) != (size_t)size)
		return 2;
	fclose(f);
	snprintf(path, sizeof(path), "%s/%d.dat", argv[1], tid);

	while (fgets(line, sizeof(line), stdin)) {
		long n = atol(line);
		pid_t pid;
		int st, fd;

		if (n < 0 || n > size)
			continue;
		f = fopen(path, "wb");
		if (!f)
			return 2;
		fwrite(full, 1, n, f);
		fclose(f);
		printf("CUT %ld\n", n);
		fflush(stdout);
		snprintf(errp, sizeof(errp), "%s.stderr.%ld", argv[1], n);
		pid = fork();
		if (pid == 0) {
			fd = open(errp, O_WRONLY | O_CREAT | O_TRUNC, 0644);
			dup2(fd, 2);
			close(fd);
			alarm(8);
			_exit(c12_read_stream(argv[1], tid, n / 16 + 4));
		}
		waitpid(pid, &st, 0);
		printf("STATUS %ld %d %d\n", n, WIFEXITED(st) ? WEXITSTATUS(st) : -1,
		       WIFSIGNALED(st) ? WTERMSIG(st) : 0);
		fflush(stdout);
		/* a reader that hangs or dies is reported by the first few cuts; do not wait for hundreds */
		if (WIFSIGNALED(st) && ++nsig >= 3)
			break;
	}
	return 0;
}
