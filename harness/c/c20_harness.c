/* C20 harness: calls the real create_directory() of utils/utils.c (object file of the
 * scratch build of /repo's current tree) on the directory named on the command line.
 * usage: c20_harness <DIR> [default-opt ...]   -> prints "R <ret>" */
#include <stdio.h>
#include <stdlib.h>
#include "utils/utils.h"

extern struct strv default_opts;
extern FILE *logfp, *outfp;

int main(int argc, char **argv)
{
	int i, ret;
	if (argc < 2)
		return 2;
	logfp = stderr;
	outfp = stdout;
	for (i = 2; i < argc; i++)
		strv_append(&default_opts, argv[i]);
	ret = create_directory(argv[1]);
	printf("R %d\n", ret);
	return 0;
}
