/* C15 harness: runs the real print_json_escaped_char() (cmds/replay.c) and json_quote()
 * (utils/utils.c) of the scratch build of /repo's current tree.
 *
 * stdin, one request per line:
 *   A            escape every byte 0..255 on its own      -> 256 lines "<hex>"
 *   E <hex>      escape the byte string exactly as dump_chrome_task_rstack does -> "<hex>"
 *   Q <hex>      the command-line path of cmds/info.c fill_cmdline: NUL/NL -> ' ', json_quote -> "<hex>"
 * (an empty string is written as "-")
 */
#include <stdio.h>
#include <stdlib.h>
#include <string.h>
#include "utils/utils.h"

extern FILE *logfp, *outfp;
void print_json_escaped_char(char **args, size_t *len, const char c);

static int unhex(const char *s, unsigned char *out)
{
	int n = 0;
	if (s[0] == '-')
		return 0;
	while (s[0] && s[1] && s[0] != '\n') {
		unsigned v;
		sscanf(s, "%2x", &v);
		out[n++] = v;
		s += 2;
	}
	return n;
}

static void puthex(const char *p, size_t n)
{
	size_t i;
	if (n == 0)
		printf("-");
	for (i = 0; i < n; i++)
		printf("%02x", (unsigned char)p[i]);
	printf("\n");
}

static void escape(const unsigned char *name, int namelen)
{
	size_t cap = (size_t)namelen * 8 + 16;
	char *buf = malloc(cap);
	char *p = buf;
	size_t len = cap - 1;
	int i;

	for (i = 0; i < namelen; i++)
		print_json_escaped_char(&p, &len, (char)name[i]);
	*p = '\0';
	puthex(buf, p - buf);
	free(buf);
}

int main(void)
{
	static char line[1 << 20];
	static unsigned char data[1 << 19];

	logfp = stderr;
	outfp = stdout;
	while (fgets(line, sizeof(line), stdin)) {
		int n;
		if (line[0] == 'A') {
			int c;
			for (c = 0; c < 256; c++) {
				unsigned char b = c;
				escape(&b, 1);
			}
		}
		else if (line[0] == 'E') {
			n = unhex(line + 2, data);
			escape(data, n);
		}
		else if (line[0] == 'Q') {
			char *q;
			int i, len;
			n = unhex(line + 2, data);
			/* fill_cmdline: separators become blanks; the buffer is a C string */
			for (i = 0; i < n; i++)
				if (data[i] == '\0' || data[i] == '\n')
					data[i] = ' ';
			data[n] = '\0';
			len = n;
			q = json_quote((char *)data, &len);
			puthex(q, len);
			free(q);
		}
		fflush(stdout);
	}
	return 0;
}
