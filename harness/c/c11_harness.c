/*
 * c11_harness - drives the REAL shadow-stack bookkeeping of libmcount around non-local control flow.
 *
 * libmcount/plthook.c of the tree under verification is #included (so that a fake PLT module can be
 * put on the static plthook_modules list); all other objects of libmcount are linked from the
 * scratch build of the same tree.  The harness plays "CPU + program": it owns a fake stack, pushes
 * return addresses, calls the entry hooks the compiler/PLT stubs would call, follows the two
 * return trampolines by calling the exit hooks, and emulates setjmp/longjmp (saved pc) and the
 * bodies of the exception wrappers of libmcount/wrap.c (which cannot be called without a real
 * exception in flight):
 *      __cxa_throw/_rethrow:  in_exception = true; mcount_rstack_restore()
 *      _Unwind_Resume:        if (in_exception) mcount_rstack_rehook_exception(own return slot); then as above
 *      __cxa_begin_catch:                    mcount_rstack_rehook_exception(); in_exception = false
 *
 * Slot number i is &stk[2*i+1]; the word below it (&stk[2*i]) is the "saved frame pointer" read as
 * parent_loc[-1].  A frame address f is passed as (unsigned long)&stk[2*f+1].
 * Values: real return address r (0 < r < 2^32) is stored as BASE + r; printed back as r;
 * mcount_return prints as 4294967297, plthook_return as 4294967298.
 *
 * One operation per line (see coq/theories/C11/Model.v `op`):
 *   CALL k s r fa | TCALL k s fa | UCALL s r | PLT i s r arg | TPLT i s | RET s | THROW | UNWIND
 *   RESUME s r | CATCH fa | POKE s v | VCHILD | VWAKE | VPARENT (after PLT <vfork> ...) | NOREC | DUMP;  scripts are separated by a line NEXT and each runs in
 *   a forked child (fresh thread data and jmpbuf list); the parent prints ENDCASE <wait status>
 * After each operation one line
 *   D <idx> <record_idx> <in_exception> <target> <pops> | loc ip plt flags *loc ; ...   (bottom first)
 * or "CRASH <why>" when the emulated CPU would run wild; libmcount itself may abort/exit.
 */
#define _GNU_SOURCE
#include <stdio.h>
#include <stdlib.h>
#include <string.h>
#include <stdint.h>
#include <time.h>
#include <dirent.h>
#include <sys/syscall.h>
#include <sys/stat.h>
#include <fcntl.h>
#include <sys/wait.h>

#include "libmcount/plthook.c"

/* ------------------------------------------------------------------ interposed clock */
static volatile uint64_t fake_now = 1000;
static volatile int fake_on;
int clock_gettime(clockid_t id, struct timespec *ts)
{
	extern int __clock_gettime(clockid_t, struct timespec *);
	if (!fake_on)
		return __clock_gettime(id, ts);
	ts->tv_sec = fake_now / 1000000000ULL;
	ts->tv_nsec = fake_now % 1000000000ULL;
	return 0;
}

/* ------------------------------------------------------------------ vfork: the "child" runs in this process */
static pid_t fake_pid;
pid_t getpid(void)
{
	return fake_pid ? fake_pid : (pid_t)syscall(SYS_getpid);
}

/* ------------------------------------------------------------------ traced functions f0..f15 */
#define FDEF(n)                                                                                    \
	asm(".text\n .globl f" #n "\n .type f" #n ",@function\n .p2align 8\n f" #n                \
	    ":\n .fill 32,1,0x90\n ret\n .size f" #n ", .-f" #n "\n");                            \
	extern void f##n(void);
FDEF(0) FDEF(1) FDEF(2) FDEF(3) FDEF(4) FDEF(5) FDEF(6) FDEF(7)
FDEF(8) FDEF(9) FDEF(10) FDEF(11) FDEF(12) FDEF(13) FDEF(14) FDEF(15)
static void (*const funcs[])(void) = { f0, f1, f2,  f3,	 f4,  f5,  f6,	f7,
				       f8, f9, f10, f11, f12, f13, f14, f15 };
#define NFUNC 16

extern int mcount_entry(unsigned long *parent_loc, unsigned long child, struct mcount_regs *regs);
extern unsigned long mcount_exit(long *retval);
extern void mcount_rstack_rehook_exception(struct mcount_thread_data *mtdp, unsigned long frame_addr);

/* ------------------------------------------------------------------ the fake PLT module */
static const char *plt_names[] = {
	"foo0",	  "foo1",    "foo2",	"foo3",	      "setjmp",	      "_setjmp", "sigsetjmp",
	"longjmp", "siglongjmp", "__longjmp_chk", "fork", "exit", "daemon", "_Unwind_RaiseException",
	"pthread_exit", "__sigsetjmp", "vfork",
};
#define NPLT (sizeof(plt_names) / sizeof(plt_names[0]))
#define PLTBASE 0x7000000UL
#define MODULE_ID 0x4d4f4431UL
static struct plthook_data fake_pd;
static struct uftrace_symbol plt_syms[NPLT];
static struct uftrace_symbol *plt_sym_names[NPLT];
static unsigned long plt_resolved[NPLT];
static unsigned long plt_got[NPLT + 8];

static void setup_fake_plt(void)
{
	unsigned i;
	for (i = 0; i < NPLT; i++) {
		plt_syms[i].addr = PLTBASE + 16 * i;
		plt_syms[i].size = 16;
		plt_syms[i].type = ST_PLT_FUNC;
		plt_syms[i].name = (char *)plt_names[i];
		plt_sym_names[i] = &plt_syms[i];
		plt_resolved[i] = 0x5000000UL + i; /* already resolved: GOT is never touched */
	}
	fake_pd.mod_name = "fake-module";
	fake_pd.module_id = MODULE_ID;
	fake_pd.base_addr = PLTBASE;
	fake_pd.plt_addr = PLTBASE;
	fake_pd.dsymtab.sym = plt_syms;
	fake_pd.dsymtab.sym_names = plt_sym_names;
	fake_pd.dsymtab.nr_sym = NPLT;
	fake_pd.dsymtab.nr_alloc = NPLT;
	fake_pd.pltgot_ptr = plt_got;
	fake_pd.resolved_addr = plt_resolved;
	setup_dynsym_indexes(&fake_pd); /* the real table of special functions */
	list_add_tail(&fake_pd.list, &plthook_modules);
}

static unsigned special_flags(unsigned idx)
{
	struct plthook_special_func *func;
	func = bsearch((void *)(unsigned long)idx, fake_pd.special_funcs, fake_pd.nr_special,
		       sizeof(*func), idxfind);
	return func ? func->flags : 0;
}

/* ------------------------------------------------------------------ fake stack and values */
#define NSLOT 8192
#define BASE 0x100000000000UL
static unsigned long stk[2 * NSLOT + 2];
#define SLOT(i) (&stk[2 * (i) + 1])
#define MRET_CODE 4294967297UL
#define PRET_CODE 4294967298UL

static unsigned long enc(unsigned long v)
{
	if (v == MRET_CODE)
		return mcount_return_fn;
	if (v == PRET_CODE)
		return (unsigned long)plthook_return;
	if (v == 0)
		return 0;
	return BASE + v;
}
static unsigned long dec_(unsigned long v)
{
	if (v == mcount_return_fn)
		return MRET_CODE;
	if (v == (unsigned long)plthook_return)
		return PRET_CODE;
	if (v >= BASE && v < BASE + (1UL << 32))
		return v - BASE;
	return v;
}
static int is_tramp(unsigned long v)
{
	return v == mcount_return_fn || v == (unsigned long)plthook_return;
}

#define NJB 64
static unsigned long jb_pc[NJB];
static int jb_set[NJB];

static void tick(void)
{
	fake_now += 10;
}

static struct mcount_thread_data *cur_mtd(void)
{
	struct mcount_thread_data *mtdp = get_thread_data();
	if (check_thread_data(mtdp))
		return NULL;
	return mtdp;
}

static void digest(unsigned long target, unsigned pops)
{
	struct mcount_thread_data *mtdp = cur_mtd();
	int i;
	if (mtdp == NULL) {
		printf("D 0 0 0 %lu %u |\n", dec_(target), pops);
		return;
	}
	printf("D %d %d %d %lu %u |", mtdp->idx, mtdp->record_idx, (int)mtdp->in_exception,
	       dec_(target), pops);
	for (i = 0; i < mtdp->idx; i++) {
		struct mcount_ret_stack *r = &mtdp->rstack[i];
		long loc = -1;
		if (r->parent_loc >= stk && r->parent_loc < stk + 2 * NSLOT + 2)
			loc = (r->parent_loc - stk - 1) / 2;
		printf(" %ld %lu %d %lu %lu ;", loc, dec_(r->parent_ip),
		       r->dyn_idx != MCOUNT_INVALID_DYNIDX, (unsigned long)(r->flags & ~MCOUNT_FL_VFORK),
		       loc >= 0 ? dec_(*r->parent_loc) : 0UL);
	}
	printf("\n");
}

/* control arrives at v: run exit hooks while it is a trampoline */
static int follow(unsigned long v, unsigned long *target, unsigned *pops)
{
	long rv[4] = { 0, 0, 0, 0 };
	unsigned n = 0;
	while (is_tramp(v)) {
		struct mcount_thread_data *mtdp = cur_mtd();
		if (mtdp == NULL || mtdp->idx <= 0) {
			printf("CRASH exit-hook-with-empty-shadow-stack\n");
			return -1;
		}
		if (n > 100000) {
			printf("CRASH trampoline-loop\n");
			return -1;
		}
		tick();
		if (v == mcount_return_fn)
			v = mcount_exit(rv);
		else
			v = plthook_exit(rv);
		n++;
	}
	*target = v;
	*pops = n;
	return 0;
}

/* ------------------------------------------------------------------ record dump (as mc_harness) */
static char session[64];
static void find_session(void)
{
	const char *dir = getenv("UFTRACE_DIR");
	DIR *d = opendir(dir ? dir : ".");
	struct dirent *e;
	while (d && (e = readdir(d))) {
		if (!strncmp(e->d_name, "sid-", 4)) {
			snprintf(session, sizeof(session), "%.16s", e->d_name + 4);
			break;
		}
	}
	if (d)
		closedir(d);
}

static void dump_records(int tid)
{
	int idx;
	for (idx = 0;; idx++) {
		char name[128];
		int fd;
		struct stat st;
		struct mcount_shmem_buffer *b;
		unsigned off;

		snprintf(name, sizeof(name), "/dev/shm/uftrace-%s-%d-%03d", session, tid, idx);
		fd = open(name, O_RDONLY);
		if (fd < 0)
			break;
		fstat(fd, &st);
		b = mmap(NULL, st.st_size, PROT_READ, MAP_SHARED, fd, 0);
		close(fd);
		if (b == MAP_FAILED)
			break;
		for (off = 0; off + 16 <= b->size; off += 16) {
			uint64_t w;
			unsigned type, depth;
			unsigned long addr, base = (unsigned long)f0;
			memcpy(&w, b->data + off + 8, 8);
			type = w & 3;
			depth = (w >> 6) & 0x3ff;
			addr = w >> 16;
			if (addr >= base && addr < base + NFUNC * 256)
				printf("R %u %u %lu\n", type, depth, (addr - base) / 256);
			else if (addr >= PLTBASE && addr < PLTBASE + 16 * NPLT)
				printf("R %u %u %lu\n", type, depth, 100 + (addr - PLTBASE) / 16);
			else
				printf("R %u %u %lu\n", type, depth, 100000 + addr);
		}
		munmap(b, st.st_size);
	}
	printf("END\n");
}

/* ------------------------------------------------------------------ one script (in a forked child) */
static void run_script(char **lines, int nlines)
{
	struct mcount_regs regs;
	int tid = syscall(SYS_gettid);
	int li;

	for (li = 0; li < nlines; li++) {
		char *line = lines[li];
		char op[16] = "";
		unsigned long a = 0, b = 0, c = 0, d = 0;
		unsigned long target = 0;
		unsigned pops = 0;

		if (line[0] == '#' || line[0] == '\n' || line[0] == 0)
			continue;
		sscanf(line, "%15s %lu %lu %lu %lu", op, &a, &b, &c, &d);
		memset(&regs, 0, sizeof(regs));
		tick();
		if (!strcmp(op, "CALL") || !strcmp(op, "TCALL")) {
			unsigned long k = a, s = b, r, fa;
			int ret;
			if (op[0] == 'C') {
				r = c;
				fa = d;
				*SLOT(s) = enc(r);
			}
			else
				fa = c;
			stk[2 * s] = (unsigned long)SLOT(fa);
			ret = mcount_entry(SLOT(s), (unsigned long)funcs[k % NFUNC] + 4, &regs);
			if (ret != 0) {
				printf("CRASH mcount_entry-returned-%d\n", ret);
				return;
			}
		}
		else if (!strcmp(op, "UCALL")) {
			*SLOT(a) = enc(b);
		}
		else if (!strcmp(op, "PLT") || !strcmp(op, "TPLT")) {
			unsigned long k = a % NPLT, s = b, r = c, arg = d;
			unsigned fl = special_flags(k);
			if (op[0] == 'P')
				*SLOT(s) = enc(r);
			else
				arg = 0;
			regs.rdi = arg;
			plthook_entry(SLOT(s), k, MODULE_ID, &regs);
			if (op[0] == 'P' && (fl & PLT_FL_SETJMP)) {
				jb_pc[arg % NJB] = *SLOT(s); /* what setjmp stores as its return pc */
				jb_set[arg % NJB] = 1;
			}
			else if (op[0] == 'P' && (fl & PLT_FL_LONGJMP)) {
				if (!jb_set[arg % NJB]) {
					printf("CRASH longjmp-on-unset-jmp_buf\n");
					return;
				}
				if (follow(jb_pc[arg % NJB], &target, &pops) < 0)
					return;
			}
		}
		else if (!strcmp(op, "VCHILD") || !strcmp(op, "VPARENT")) {
			/* both the child and (later) the parent come back from vfork at plthook_return */
			fake_pid = op[1] == 'C' ? (pid_t)syscall(SYS_getpid) + 100000 : 0;
			if (op[1] == 'P') {
				/* the child may have left an empty shadow stack: restore_vfork() copes with that */
				long rv[4] = { 0, 0, 0, 0 };
				unsigned long v;
				tick();
				v = plthook_exit(rv);
				if (follow(v, &target, &pops) < 0)
					return;
				pops++;
			}
			else if (follow((unsigned long)plthook_return, &target, &pops) < 0)
				return;
		}
		else if (!strcmp(op, "NOREC")) {
			/* stand-in for a filter that rejects the library call just pushed (-N foo, -D n, -F f):
			 * mcount_entry_filter_record() leaves the entry MCOUNT_FL_NORECORD and does not count it
			 * in record_idx.  (Not used on the vfork entry itself: the filter marks that one before
			 * prepare_vfork() saves it; vfork rejected by a filter is covered end to end, -N vfork.) */
			struct mcount_thread_data *mtdp = get_thread_data();
			if (!check_thread_data(mtdp) && mtdp->idx > 0) {
				struct mcount_ret_stack *r = &mtdp->rstack[mtdp->idx - 1];
				r->flags |= MCOUNT_FL_NORECORD;
				if (mtdp->record_idx > 0)
					mtdp->record_idx--;
			}
		}
		else if (!strcmp(op, "VWAKE")) {
			/* the child is gone and the parent thread runs again, but not yet vfork's exit hook:
			 * a signal handler (SIGCHLD) comes first */
			fake_pid = 0;
		}
		else if (!strcmp(op, "RET")) {
			if (follow(*SLOT(a), &target, &pops) < 0)
				return;
		}
		else if (!strcmp(op, "THROW") || !strcmp(op, "RESUME")) {
			struct mcount_thread_data *mtdp;
			if (op[0] == 'R')
				*SLOT(a) = enc(b);
			/* body of the __cxa_throw / __cxa_rethrow wrappers (wrap.c); _Unwind_Resume first
			 * drops the entries at or below its own return-address slot (frame_ptr + 1) */
			mtdp = get_thread_data();
			if (!check_thread_data(mtdp)) {
				if (op[0] == 'R' && mtdp->in_exception)
					mcount_rstack_rehook_exception(mtdp, (unsigned long)SLOT(a));
				mtdp->in_exception = true;
				/* the wrappers record their own frame address: a PLT call made below it comes
				 * from the unwinder (--nest-libcall) and is not a landing-pad call.  The scripts
				 * have no calls from inside the unwinder (rstep: they are untraced code), so the
				 * throw point is put below every slot; the guard itself is checked end to end
				 * (record -l on C++ programs, w_nestlib). */
				mtdp->exception_frame = 0;
				mcount_rstack_restore(mtdp);
			}
			if (op[0] == 'R')
				target = *SLOT(a);
		}
		else if (!strcmp(op, "UNWIND")) {
			/* the unwinder drops a frame: no libmcount code runs */
		}
		else if (!strcmp(op, "CATCH")) {
			/* body of the __cxa_begin_catch wrapper after the real call (wrap.c) */
			struct mcount_thread_data *mtdp = get_thread_data();
			if (!check_thread_data(mtdp) && mtdp->in_exception) {
				mcount_rstack_rehook_exception(mtdp, (unsigned long)SLOT(a));
				mtdp->in_exception = false;
			}
		}
		else if (!strcmp(op, "POKE")) {
			*SLOT(a) = enc(b);
		}
		else if (!strcmp(op, "DUMP")) {
			if (!session[0])
				find_session();
			dump_records(tid);
			continue;
		}
		else {
			printf("? %s\n", op);
			continue;
		}
		digest(target, pops);
	}
}

/* ------------------------------------------------------------------ main: scripts separated by NEXT,
 * each executed in a forked child (fresh per-thread data, fresh jmpbuf list, own shm buffers) */
int main(void)
{
	static char *lines[1 << 16];
	char *buf = NULL;
	size_t cap = 0, len = 0;
	int nlines = 0, start, i;
	unsigned u;
	ssize_t r;

	setvbuf(stdout, NULL, _IOLBF, 1 << 16);
	fake_on = 1;
	setup_fake_plt();
	printf("FLAGS");
	for (u = 0; u < NPLT; u++)
		printf(" %s=%u", plt_names[u], special_flags(u));
	printf("\n");

	for (;;) {
		if (len + 65536 > cap) {
			cap = cap ? cap * 2 : 1 << 20;
			buf = realloc(buf, cap);
		}
		r = read(0, buf + len, cap - len - 1);
		if (r <= 0)
			break;
		len += r;
	}
	if (buf == NULL)
		_exit(0);
	buf[len] = 0;
	{
		char *p = buf;
		while (p && *p && nlines < (1 << 16) - 1) {
			char *nl = strchr(p, '\n');
			if (nl)
				*nl = 0;
			lines[nlines++] = p;
			p = nl ? nl + 1 : NULL;
		}
	}
	start = 0;
	for (i = 0; i <= nlines; i++) {
		if (i == nlines || !strcmp(lines[i], "NEXT")) {
			if (i > start) {
				pid_t pid;
				int st = 0;
				fflush(stdout);
				pid = fork();
				if (pid == 0) {
					run_script(lines + start, i - start);
					fflush(stdout);
					_exit(0);
				}
				waitpid(pid, &st, 0);
				printf("ENDCASE %d\n", st);
			}
			start = i + 1;
		}
	}
	fflush(stdout);
	_exit(0);
}
