/* C12 harness 2: drives the real task list reader utils/data-file.c read_task_txt_file() (object code of the
 * scratch ASan+UBSan build of /repo's current tree) over every requested truncation of DIR/task.txt.
 *
 * usage: c12_tasktxt DIR FULLFILE  < list of cut lengths (one per line)
 *
 * For every cut n, DIR/task.txt is rewritten with the first n bytes of FULLFILE and a child process reads it
 * (no symbol tables).  Output per cut:
 *   CUT n
 *   RET r                                  (return value of read_task_txt_file)
 *   S time pid hex(sid) hex(exename)       (one per session, walk_sessions order)
 *   T tid pid ppid time                    (one per task, walk_tasks order = tid order)
 *   STATUS n <exit status> <signal>
 * stderr of the child goes to DIR.stderr.n (removed by the caller). */
#include <stdio.h>
#include <stdlib.h>
#include <string.h>
#include <unistd.h>
#include <fcntl.h>
#include <sys/wait.h>

#include "uftrace.h"
#include "utils/utils.h"
#include "utils/symbol.h"

extern FILE *logfp, *outfp;

static void hex(const char *s, size_t n)
{
	size_t i;

	if (n == 0)
		printf("-");
	for (i = 0; i < n; i++)
		printf("%02x", (unsigned char)s[i]);
}

static int print_session(struct uftrace_session *s, void *arg)
{
	printf("S %llu %d ", (unsigned long long)s->start_time, s->pid);
	hex(s->sid, strnlen(s->sid, SESSION_ID_LEN));
	printf(" ");
	hex(s->exename, strlen(s->exename));
	printf("\n");
	return 0;
}

static int print_task(struct uftrace_task *t, void *arg)
{
	printf("T %d %d %d %llu\n", t->tid, t->pid, t->ppid, (unsigned long long)t->time.stamp);
	return 0;
}

static int read_it(char *dir)
{
	struct uftrace_session_link link = {
		.root = RB_ROOT,
		.tasks = RB_ROOT,
	};
	int r = read_task_txt_file(&link, dir, dir, false, false, false);

	printf("RET %d\n", r);
	walk_sessions(&link, print_session, NULL);
	walk_tasks(&link, print_task, NULL);
	fflush(stdout);
	return 0;
}

int main(int argc, char **argv)
{
	char path[4096], errp[4096], line[64];
	unsigned char *full;
	long size;
	int nsig = 0;
	FILE *f;

	if (argc < 3)
		return 2;
	logfp = stderr;
	outfp = stdout;
	f = fopen(argv[2], "rb");
	if (!f)
		return 2;
	fseek(f, 0, SEEK_END);
	size = ftell(f);
	fseek(f, 0, SEEK_SET);
	full = malloc(size + 1);
	if (fread(full, 1, size, f) != (size_t)size)
		return 2;
	fclose(f);
	snprintf(path, sizeof(path), "%s/task.txt", argv[1]);

	while (fgets(line, sizeof(line), stdin)) {
		long n = atol(line);
		pid_t pid;
		int st, fd;

		if (n < 0 || n > size)
			continue;
		f = fopen(path, "wb");
		if (!f)
			return 2;
		fwrite(full, 1, n, f);
		fclose(f);
		printf("CUT %ld\n", n);
		fflush(stdout);
		snprintf(errp, sizeof(errp), "%s.stderr.%ld", argv[1], n);
		pid = fork();
		if (pid == 0) {
			fd = open(errp, O_WRONLY | O_CREAT | O_TRUNC, 0644);
			dup2(fd, 2);
			close(fd);
			alarm(8);
			_exit(read_it(argv[1]));
		}
		waitpid(pid, &st, 0);
		printf("STATUS %ld %d %d\n", n, WIFEXITED(st) ? WEXITSTATUS(st) : -1, WIFSIGNALED(st) ? WTERMSIG(st) : 0);
		fflush(stdout);
		if (WIFSIGNALED(st) && ++nsig >= 3)
			break;
	}
	return 0;
}
