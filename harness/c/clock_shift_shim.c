#define _GNU_SOURCE
#include <dlfcn.h>
#include <time.h>
/* LD_PRELOAD shim for the C02 end-to-end clock clause: the three clocks `uftrace record --clock=` can name are moved
 * far apart (CLOCK_MONOTONIC_RAW +1000 s, CLOCK_BOOTTIME +2000 s), for the traced program and libmcount alike, so
 * that a record stamped with the wrong clock lies far outside the program's own readings of the right one. */
int clock_gettime(clockid_t id, struct timespec *ts)
{
	static int (*real)(clockid_t, struct timespec *);
	int r;
	if (!real)
		real = dlsym(RTLD_NEXT, "clock_gettime");
	r = real(id, ts);
	if (r == 0) {
		if (id == CLOCK_MONOTONIC_RAW)
			ts->tv_sec += 1000;
		else if (id == CLOCK_BOOTTIME)
			ts->tv_sec += 2000;
	}
	return r;
}
