/* C16 harness, receiver side + driver.
 *
 * #includes cmds/recv.c of /repo's CURRENT tree: the static handle_client_sock() (and through
 * it recv_trace_*(), write_client_file(), find_client()) is called for every EPOLLIN event of
 * an epoll loop over the server ends of socketpairs; send_trace_*() defined in the same file are
 * used by the sender side (c16_send.c).
 *
 * usage: c16_harness CASEFILE      (see props/c16.py for the case file format)
 *   - forks one server process (cwd = srvdir) and one process per client
 *   - interposes read() [server, sockets: at most k bytes per call / EINTR],
 *     writev()/write() [client socket: short counts / EINTR, bytes captured;
 *                       server files: short counts / EINTR; client local files: short counts]
 *   - prints "server exit=E sig=S" and "client I exit=E sig=S" lines
 */
#include "cmds/recv.c"

#include <limits.h>
#include <linux/sockios.h>
#include <sys/ioctl.h>
#include <sys/uio.h>

#include "c16_common.h"

extern FILE *logfp, *outfp;

enum { ROLE_DRIVER, ROLE_SERVER, ROLE_CLIENT };
static int g_role = ROLE_DRIVER;
static int g_sock = -1, g_capfd = -1;
static unsigned char g_issock[1024];
static struct c16_sched g_rsched, g_fsched;
static struct c16_sched *g_wsched, *g_lsched;

#define NOCAP INT_MAX
static pthread_mutex_t sched_lock = PTHREAD_MUTEX_INITIALIZER;
static int g_yield; /* the client has several writer threads */
static int g_rdelay; /* usec the server sleeps before every read() of a socket: a slow reader */

static int sched_next(struct c16_sched *s)
{
	int v;

	if (!s || s->n == 0)
		return NOCAP;
	pthread_mutex_lock(&sched_lock);
	v = s->v[s->pos];
	s->pos = (s->pos + 1) % s->n;
	s->calls++;
	pthread_mutex_unlock(&sched_lock);
	return v;
}

/* ------------------------------------------------------------------ interposed system calls */
ssize_t read(int fd, void *buf, size_t n)
{
	if (g_role == ROLE_SERVER && fd >= 0 && fd < 1024 && g_issock[fd] && n > 0) {
		int v = sched_next(&g_rsched);

		if (g_rdelay)
			usleep(g_rdelay);

		if (v == 0) {
			errno = EINTR;
			return -1;
		}
		if (v > 0 && (size_t)v < n)
			n = v;
	}
	return syscall(SYS_read, fd, buf, n);
}

static void capture(const void *p, size_t n)
{
	const char *c = p;

	while (n && g_capfd >= 0) {
		long r = syscall(SYS_write, g_capfd, c, n);
		if (r <= 0)
			_exit(44);
		c += r;
		n -= r;
	}
}

static struct c16_sched *write_sched(int fd)
{
	if (g_role == ROLE_CLIENT) {
		if (fd == g_sock)
			return g_wsched;
		if (fd > 2 && fd != g_capfd)
			return g_lsched;
	}
	else if (g_role == ROLE_SERVER && fd > 2 && fd < 1024 && !g_issock[fd])
		return &g_fsched;
	return NULL;
}

ssize_t write(int fd, const void *buf, size_t n)
{
	int v = sched_next(write_sched(fd));
	long r;

	if (v < 0) {
		errno = EINTR;
		return -1;
	}
	if ((size_t)v < n)
		n = v;
	if (n == 0 && v != NOCAP)
		return 0;
	r = syscall(SYS_write, fd, buf, n);
	if (r > 0 && g_role == ROLE_CLIENT && fd == g_sock)
		capture(buf, r);
	return r;
}

ssize_t writev(int fd, const struct iovec *iov, int cnt)
{
	int v = sched_next(write_sched(fd));
	struct iovec tmp[16];
	size_t cap;
	int i, k = 0;
	long r;

	if (v < 0) {
		errno = EINTR;
		return -1;
	}
	if (cnt > 16)
		_exit(45);
	cap = v;
	for (i = 0; i < cnt; i++) {
		tmp[k] = iov[i];
		if (v != NOCAP) {
			if (tmp[k].iov_len > cap)
				tmp[k].iov_len = cap;
			cap -= tmp[k].iov_len;
		}
		k++;
	}
	r = syscall(SYS_writev, fd, tmp, k);
	if (g_yield && g_role == ROLE_CLIENT && fd == g_sock && r >= 0) {
		size_t full = 0;

		for (i = 0; i < cnt; i++)
			full += iov[i].iov_len;
		if ((size_t)r < full)
			usleep(50); /* a writer that got a short count waits for buffer space: other threads run */
	}
	if (r > 0 && g_role == ROLE_CLIENT && fd == g_sock) {
		size_t left = r;

		for (i = 0; i < k && left; i++) {
			size_t m = tmp[i].iov_len < left ? tmp[i].iov_len : left;

			capture(tmp[i].iov_base, m);
			left -= m;
		}
	}
	return r;
}

/* ------------------------------------------------------------------ case file */
#define MAXCLIENT 8
static char *g_srvdir;
static int g_nclients;
static struct c16_client g_clients[MAXCLIENT];

static void parse_sched(struct c16_sched *s, char *p)
{
	char *tok;

	s->n = s->pos = 0;
	s->calls = 0;
	for (tok = strtok(p, " \n"); tok; tok = strtok(NULL, " \n")) {
		if (s->n < C16_MAXSCHED)
			s->v[s->n++] = atoi(tok);
	}
}

static void parse_case(const char *path)
{
	FILE *fp = fopen(path, "r");
	char *line = NULL;
	size_t cap = 0;
	struct c16_client *c = NULL;

	if (!fp) {
		perror(path);
		exit(2);
	}
	while (getline(&line, &cap, fp) > 0) {
		char *nl = strchr(line, '\n');
		char *p = line;

		if (nl)
			*nl = 0;
		if (!strncmp(p, "srvdir ", 7))
			g_srvdir = strdup(p + 7);
		else if (!strncmp(p, "rsched ", 7))
			parse_sched(&g_rsched, p + 7);
		else if (!strncmp(p, "fsched ", 7))
			parse_sched(&g_fsched, p + 7);
		else if (!strncmp(p, "rdelay ", 7))
			g_rdelay = atoi(p + 7);
		else if (!strncmp(p, "client ", 7)) {
			char a[PATH_MAX], b[PATH_MAX];

			c = &g_clients[g_nclients];
			c->idx = g_nclients++;
			c->after = -1;
			sscanf(p + 7, "%s %s after %d", a, b, &c->after);
			c->localdir = strdup(a);
			c->capfile = strdup(b);
			c->ops = calloc(4096, sizeof(*c->ops));
		}
		else if (!strncmp(p, "wsched ", 7))
			parse_sched(&c->wsched, p + 7);
		else if (!strncmp(p, "lsched ", 7))
			parse_sched(&c->lsched, p + 7);
		else if (!strncmp(p, "op ", 3)) {
			struct c16_op *op = &c->ops[c->nops++];
			char kind[32], a1[64] = "", *rest;
			int off = 0;

			sscanf(p + 3, "%31s %n", kind, &off);
			rest = p + 3 + off;
			if (!strcmp(kind, "dir")) {
				op->kind = OP_DIR;
				op->arg = strdup(rest);
			}
			else if (!strcmp(kind, "data") || !strcmp(kind, "kernel") || !strcmp(kind, "perf")) {
				op->kind = !strcmp(kind, "data") ? OP_DATA :
					   !strcmp(kind, "kernel") ? OP_KERNEL : OP_PERF;
				sscanf(rest, "%63s %n", a1, &off);
				op->num = atol(a1);
				op->arg = strdup(rest + off);
			}
			else if (!strcmp(kind, "tdata")) {
				int th = 0;
				long tid = 0;

				op->kind = OP_TDATA;
				sscanf(rest, "%d %ld %n", &th, &tid, &off);
				op->thread = th;
				op->num = tid;
				op->arg = strdup(rest + off);
			}
			else if (!strcmp(kind, "bigdata")) {
				unsigned long l, s;

				op->kind = OP_BIGDATA;
				sscanf(rest, "%ld %lu %lu", &op->num, &l, &s);
				op->len = l;
				op->seed = s;
			}
			else if (!strcmp(kind, "meta")) {
				op->kind = OP_META;
				op->arg = strdup(rest);
			}
			else if (!strcmp(kind, "raw")) {
				op->kind = OP_RAW;
				op->arg = strdup(rest);
			}
			else if (!strcmp(kind, "sleep")) {
				op->kind = OP_SLEEP;
				op->num = atol(rest);
			}
			else if (!strcmp(kind, "info"))
				op->kind = OP_INFO;
			else if (!strcmp(kind, "taskfile"))
				op->kind = OP_TASKFILE;
			else if (!strcmp(kind, "mapfiles"))
				op->kind = OP_MAPFILES;
			else if (!strcmp(kind, "symfiles"))
				op->kind = OP_SYMFILES;
			else if (!strcmp(kind, "dbgfiles"))
				op->kind = OP_DBGFILES;
			else if (!strcmp(kind, "end"))
				op->kind = OP_END;
			else if (!strcmp(kind, "abort"))
				op->kind = OP_ABORT;
			else if (!strcmp(kind, "post") || !strcmp(kind, "wait")) {
				op->kind = !strcmp(kind, "post") ? OP_POST : OP_WAIT;
				op->arg = strdup(rest);
			}
			else {
				fprintf(stderr, "bad op: %s\n", p);
				exit(2);
			}
		}
	}
	fclose(fp);
}

/* ------------------------------------------------------------------ server */
static int server_main(int *sfd, int n)
{
	struct uftrace_opts opts;
	int efd, i, j, live = n;
	int closed[MAXCLIENT] = { 0 };
	int pending[MAXCLIENT] = { 0 };

	memset(&opts, 0, sizeof(opts));
	if (chdir(g_srvdir) < 0)
		return 5;
	efd = epoll_create1(EPOLL_CLOEXEC);
	for (i = 0; i < n; i++) {
		if (g_clients[i].after >= 0) {
			pending[i] = 1; /* connection not accept()ed yet */
			continue;
		}
		g_issock[sfd[i]] = 1;
		epoll_add(efd, sfd[i], EPOLLIN);
	}
	g_role = ROLE_SERVER;
	while (live > 0) {
		struct epoll_event ev[10];
		int len = epoll_wait(efd, ev, 10, 8000);

		if (len < 0 && errno == EINTR)
			continue;
		if (len <= 0)
			return 3; /* stuck */
		for (i = 0; i < len; i++)
			handle_client_sock(&ev[i], efd, &opts); /* the real thing (EPOLLIN, EPOLLHUP, EPOLLERR) */
		for (i = 0; i < n; i++) {
			if (pending[i] || closed[i] || fcntl(sfd[i], F_GETFD) >= 0)
				continue;
			closed[i] = 1;
			g_issock[sfd[i]] = 0;
			live--;
			/* what accept() does next: the waiting connection gets the lowest free
			   descriptor, i.e. the number that was just closed */
			for (j = 0; j < n; j++) {
				if (!pending[j] || g_clients[j].after != i)
					continue;
				if (dup2(sfd[j], sfd[i]) < 0)
					return 6;
				close(sfd[j]);
				sfd[j] = sfd[i];
				pending[j] = 0;
				g_issock[sfd[j]] = 1;
				epoll_add(efd, sfd[j], EPOLLIN);
				break;
			}
		}
	}
	return 0;
}

static int client_main(struct c16_client *c, int sock)
{
	int rc, has_end = 0, has_abort = 0, i;
	char buf[256], path[PATH_MAX];
	FILE *fp;

	g_sock = sock;
	g_capfd = open(c->capfile, O_WRONLY | O_CREAT | O_TRUNC, 0644);
	g_wsched = &c->wsched;
	g_lsched = &c->lsched;
	g_role = ROLE_CLIENT;
	for (i = 0; i < c->nops; i++)
		has_end |= c->ops[i].kind == OP_END;
	for (i = 0; i < c->nops; i++)
		g_yield |= c->ops[i].kind == OP_TDATA;
	for (i = 0; i < c->nops; i++)
		has_abort |= c->ops[i].kind == OP_ABORT;

	rc = c16_client(c, sock);

	g_role = ROLE_DRIVER;
	snprintf(path, sizeof(path), "%s.stat", c->capfile);
	fp = fopen(path, "w");
	fprintf(fp, "wcalls %ld\nlcalls %ld\n", c->wsched.calls, c->lsched.calls);
	fclose(fp);
	/* keep our end open until the server has consumed everything (an AF_UNIX peer close would
	   raise EPOLLHUP at once, unlike TCP); without SEND_END only our sending direction ends */
	if (has_abort) {
		/* connection reset: wait until the server has READ everything we sent (SIOCOUTQ of an AF_UNIX
		   socket = bytes not yet read by the peer), then drop the socket: the server sees EPOLLHUP */
		int left = 1, spins = 0;

		while (ioctl(sock, SIOCOUTQ, &left) == 0 && left > 0 && spins++ < 5000)
			usleep(1000);
		usleep(2000);
		close(sock);
		return rc;
	}
	if (!has_end)
		shutdown(sock, SHUT_WR);
	alarm(10);
	while (syscall(SYS_read, sock, buf, sizeof(buf)) > 0)
		;
	close(sock);
	return rc;
}

int main(int argc, char **argv)
{
	int sfd[MAXCLIENT], cfd[MAXCLIENT];
	pid_t spid, cpid[MAXCLIENT];
	int i, j, st;

	if (argc < 2)
		return 2;
	logfp = stderr;
	outfp = stdout;
	signal(SIGPIPE, SIG_IGN);
	parse_case(argv[1]);
	for (i = 0; i < g_nclients; i++) {
		int sv[2];

		if (socketpair(AF_UNIX, SOCK_STREAM, 0, sv) < 0)
			return 4;
		sfd[i] = sv[0];
		cfd[i] = sv[1];
	}
	fflush(NULL);
	spid = fork();
	if (spid == 0) {
		for (i = 0; i < g_nclients; i++)
			close(cfd[i]);
		_exit(server_main(sfd, g_nclients));
	}
	for (i = 0; i < g_nclients; i++) {
		cpid[i] = fork();
		if (cpid[i] == 0) {
			for (j = 0; j < g_nclients; j++) {
				close(sfd[j]);
				if (j != i)
					close(cfd[j]);
			}
			_exit(client_main(&g_clients[i], cfd[i]));
		}
	}
	for (i = 0; i < g_nclients; i++) {
		close(sfd[i]);
		close(cfd[i]);
	}
	for (i = 0; i < g_nclients; i++) {
		waitpid(cpid[i], &st, 0);
		printf("client %d exit=%d sig=%d\n", i, WIFEXITED(st) ? WEXITSTATUS(st) : -1,
		       WIFSIGNALED(st) ? WTERMSIG(st) : 0);
	}
	waitpid(spid, &st, 0);
	printf("server exit=%d sig=%d\n", WIFEXITED(st) ? WEXITSTATUS(st) : -1,
	       WIFSIGNALED(st) ? WTERMSIG(st) : 0);
	return 0;
}
