/*
 * c04_rec - the recorder side of the C04 ties.  cmds/record.c of /repo's current tree is
 * #included, so its static state (shmem_list_head, buf_write_list, tid_list_head, ...) and its
 * static functions (read_record_mmap, record_mmap_file, copy_to_buffer, write_buf_list,
 * flush_shmem_list, record_remaining_buffer, check_tid_list, ...) are the real code.
 *
 * Mode "kill":  c04_rec kill <dir> <bufsize> <producer-exe> <script> <action>...
 *   Forks <producer-exe> <script> under ptrace with UFTRACE_DIR=<dir> (the FIFO <dir>/.channel is
 *   created and held open here, like `uftrace record` does).  The producer stops itself at every
 *   "S" line of its script; the n-th stop is answered by the n-th action:
 *      N        continue
 *      R        the recorder catches up (read_record_mmap for every pending message, then the
 *               writer's write_buf_list over everything queued), continue
 *      K<e>     single-step the producer until the e-th change of (size, RECORDING bit) of one of
 *               its shm buffers, or until it stops again / exits; then SIGKILL it
 *   SIGSEGV/SIGABRT raised by the producer are passed on to it (libmcount's handler runs).
 *   When the producer is gone: the rest of the pipe is read, flush_shmem_list,
 *   record_remaining_buffer, unlink_shmem_list - and the result is printed:
 *      STATUS <how the producer ended>
 *      SHL <idx>...          shmem_list after the pipe was drained (buffer indexes)
 *      SHF <flag>...         the flag words of those buffers
 *      WL <size>...          sizes of the buffers queued after flush_shmem_list
 *      FILE <hex>            content of <dir>/<tid>.dat
 *
 * Mode "live":  c04_rec live <dir>   (script on stdin, one result line per command)
 *   SPAWN             fork a sleeping child             -> "PID <pid>"
 *   KILL <pid>        SIGKILL + no wait (zombie)        -> "OK"
 *   REAP <pid>        waitpid                           -> "OK"
 *   MSG <type> <pid> <tid>   feed one uftrace_msg(+uftrace_msg_task) through read_record_mmap -> "OK"
 *   SIGCHLD <pid>     call sigchld_handler with si_pid  -> "OK"
 *   CHECK             check_tid_list()                  -> "CHECK <ret> <child_exited> <finish_received> <pid>:<tid>:<exited> ..."
 *   RSTART|REND <sid> <tid> <idx>   feed REC_START / REC_END for "/uftrace-<sid as %016x>-<tid>-<idx as %03d>" -> "OK"
 *   SHL               shmem_list_head                   -> "SHL <sid>:<tid>:<idx> ..."
 *   DROP <m>          drop_pending_forks() on a pipe that is  m=0: empty, writer open;  m=1: empty, no writer;
 *                     m=2: not empty, no writer             -> "DROP <ret> <pid>:<tid>:<exited> ..."
 */
#define _GNU_SOURCE
#define main uftrace_main
#include "uftrace.c"
#undef main
#include "cmds/record.c"

#include <sys/ptrace.h>
#include <sys/user.h>
#include <sys/prctl.h>

static struct uftrace_opts g_opts;

/* ------------------------------------------------------------------ recorder pieces */
static void drain_pipe(int pfd, const char *dir, int bufsize)
{
	for (;;) {
		int remaining = 0;
		if (ioctl(pfd, FIONREAD, &remaining) < 0 || remaining == 0)
			break;
		read_record_mmap(pfd, dir, bufsize);
	}
}

static void writer_catch_up(void)
{
	/* the body of writer_thread for everything that is queued, by one writer */
	LIST_HEAD(head);
	struct writer_arg *warg = xzalloc(sizeof(*warg));
	int dummy;

	warg->opts = &g_opts;
	warg->sock = -1;
	INIT_LIST_HEAD(&warg->list);
	INIT_LIST_HEAD(&warg->bufs);
	while (read(thread_ctl[0], &dummy, sizeof(dummy)) > 0)
		;
	list_splice_tail_init(&buf_write_list, &head);
	write_buf_list(&head, &g_opts, warg);
	free(warg);
}

/* ------------------------------------------------------------------ watching the shm buffers */
#define MAXBUF 64
static struct watch {
	int fd;
	struct mcount_shmem_buffer *b;
	unsigned size, rec;
} wb[MAXBUF];
static int nwb;
static char sid[32];
static int child_tid;
static int w_bufsize;

static char seen_sid[8][32];
static int nseen;

/* at an exec: every session file that exists belongs to an image that is gone */
static void mark_seen_sids(const char *dir)
{
	DIR *d = opendir(dir);
	struct dirent *e;
	int k;
	while (d && (e = readdir(d))) {
		if (strncmp(e->d_name, "sid-", 4))
			continue;
		for (k = 0; k < nseen; k++)
			if (!strncmp(seen_sid[k], e->d_name + 4, 16))
				break;
		if (k == nseen && nseen < 8)
			snprintf(seen_sid[nseen++], 32, "%.16s", e->d_name + 4);
	}
	if (d)
		closedir(d);
}

/* the session of the image that runs now: the sid-*.map that was not there at the last exec */
static void find_sid(const char *dir)
{
	DIR *d = opendir(dir);
	struct dirent *e;
	int k;
	while (d && (e = readdir(d))) {
		if (strncmp(e->d_name, "sid-", 4))
			continue;
		for (k = 0; k < nseen; k++)
			if (!strncmp(seen_sid[k], e->d_name + 4, 16))
				break;
		if (k < nseen)
			continue;
		snprintf(sid, sizeof(sid), "%.16s", e->d_name + 4);
		break;
	}
	if (d)
		closedir(d);
}

/* returns the number of (size / RECORDING-bit) changes since the last call */
static int poll_buffers(void)
{
	int i, ev = 0;
	struct stat st;

	/* discover the next buffer */
	while (nwb < MAXBUF) {
		char name[128];
		int fd;
		void *p;
		snprintf(name, sizeof(name), "/dev/shm/uftrace-%s-%d-%03d", sid, child_tid, nwb);
		fd = open(name, O_RDONLY);
		if (fd < 0)
			break;
		if (fstat(fd, &st) < 0 || st.st_size < w_bufsize) {
			close(fd);
			break;
		}
		p = mmap(NULL, w_bufsize, PROT_READ, MAP_SHARED, fd, 0);
		if (p == MAP_FAILED) {
			close(fd);
			break;
		}
		wb[nwb].fd = fd;
		wb[nwb].b = p;
		wb[nwb].size = 0;
		wb[nwb].rec = 0;
		nwb++;
	}
	for (i = 0; i < nwb; i++) {
		unsigned size = 0, rec = 0;
		if (fstat(wb[i].fd, &st) == 0 && st.st_size >= w_bufsize) {
			size = wb[i].b->size;
			rec = wb[i].b->flag & SHMEM_FL_RECORDING;
		}
		if (size != wb[i].size)
			ev++;
		if (rec != wb[i].rec)
			ev++;
		wb[i].size = size;
		wb[i].rec = rec;
	}
	return ev;
}

/* ------------------------------------------------------------------ kill mode */
static int mode_kill(int argc, char **argv)
{
	const char *dir = argv[2];
	int bufsize = atoi(argv[3]);
	const char *exe = argv[4];
	const char *script = argv[5];
	char **actions = &argv[6];
	int nact = argc - 6, act = 0;
	char *channel = NULL, *path = NULL;
	int pfd, status = 0, alive = 1;
	pid_t pid;
	char how[64] = "?";
	struct shmem_list *sl;
	struct buf_list *bl;
	FILE *fp;
	int c;

	logfp = stderr;
	outfp = stdout;
	g_opts.dirname = (char *)dir;
	g_opts.bufsize = bufsize;
	g_opts.nr_thread = 1;
	w_bufsize = bufsize;

	xasprintf(&channel, "%s/.channel", dir);
	if (mkfifo(channel, 0600) < 0 && errno != EEXIST) {
		perror("mkfifo");
		return 2;
	}
	pfd = open(channel, O_RDONLY | O_NONBLOCK);
	if (pfd < 0 || pipe(thread_ctl) < 0) {
		perror("open");
		return 2;
	}
	fcntl(thread_ctl[0], F_SETFL, O_NONBLOCK);
	fcntl(thread_ctl[1], F_SETFL, O_NONBLOCK);

	pid = fork();
	if (pid == 0) {
		char bs[32];
		snprintf(bs, sizeof(bs), "%d", bufsize);
		setenv("UFTRACE_DIR", dir, 1);
		setenv("UFTRACE_BUFFER", bs, 1);
		setenv("UFTRACE_PATTERN", "simple", 1);
		personality(ADDR_NO_RANDOMIZE);
		ptrace(PTRACE_TRACEME, 0, 0, 0);
		execl(exe, exe, script, NULL);
		_exit(99);
	}
	child_tid = pid;

	while (alive) {
		int sig = 0;
		if (waitpid(pid, &status, 0) < 0)
			break;
		if (WIFEXITED(status)) {
			snprintf(how, sizeof(how), "exit %d", WEXITSTATUS(status));
			break;
		}
		if (WIFSIGNALED(status)) {
			snprintf(how, sizeof(how), "signal %d", WTERMSIG(status));
			break;
		}
		if (!WIFSTOPPED(status))
			continue;
		sig = WSTOPSIG(status);
		if (sig == SIGTRAP) { /* exec (also of a second image later on): new session, new buffers to watch */
			int k;
			for (k = 0; k < nwb; k++) {
				munmap(wb[k].b, w_bufsize);
				close(wb[k].fd);
			}
			nwb = 0;
			sid[0] = 0;
			mark_seen_sids(dir);
			ptrace(PTRACE_CONT, pid, 0, 0);
			continue;
		}
		if (sig != SIGSTOP) { /* SIGSEGV / SIGABRT / ...: deliver */
			ptrace(PTRACE_CONT, pid, 0, sig);
			continue;
		}
		/* a marker stop */
		if (!sid[0])
			find_sid(dir);
		if (act >= nact) {
			ptrace(PTRACE_CONT, pid, 0, 0);
			continue;
		}
		if (actions[act][0] == 'N') {
			act++;
			ptrace(PTRACE_CONT, pid, 0, 0);
		}
		else if (actions[act][0] == 'R') {
			act++;
			drain_pipe(pfd, dir, bufsize);
			writer_catch_up();
			ptrace(PTRACE_CONT, pid, 0, 0);
		}
		else { /* K<e> */
			int want = atoi(actions[act] + 1), seen = 0;
			long steps = 0;
			act++;
			poll_buffers();
			while (seen < want && steps < 2000000) {
				ptrace(PTRACE_SINGLESTEP, pid, 0, 0);
				if (waitpid(pid, &status, 0) < 0)
					break;
				steps++;
				if (!WIFSTOPPED(status))
					break;
				if (WSTOPSIG(status) != SIGTRAP)
					break; /* next marker (or a signal): the operation is over */
				seen += poll_buffers();
			}
			if (WIFSTOPPED(status)) {
				kill(pid, SIGKILL);
				waitpid(pid, &status, 0);
				snprintf(how, sizeof(how), "killed %d/%d steps=%ld", seen, want, steps);
			}
			else if (WIFEXITED(status))
				snprintf(how, sizeof(how), "exit %d", WEXITSTATUS(status));
			else
				snprintf(how, sizeof(how), "signal %d", WTERMSIG(status));
			alive = 0;
		}
	}

	/* the tracee is gone: what stop_tracing + finish_writers do */
	drain_pipe(pfd, dir, bufsize);
	printf("STATUS %s\n", how);
	printf("SHL");
	list_for_each_entry(sl, &shmem_list_head, list) {
		int idx = -1;
		sscanf(sl->id, "/uftrace-%*[^-]-%*d-%d", &idx);
		printf(" %d", idx);
	}
	printf("\nSHF");
	list_for_each_entry(sl, &shmem_list_head, list) {
		char name[160];
		int fd;
		unsigned hdr[2] = { 0, 0 };
		snprintf(name, sizeof(name), "/dev/shm%s", sl->id);
		fd = open(name, O_RDONLY);
		if (fd >= 0) {
			if (read(fd, hdr, sizeof(hdr)) < 0)
				hdr[1] = 9999;
			close(fd);
		}
		printf(" %u", hdr[1]);
	}
	printf("\n");
	flush_shmem_list(dir, bufsize);
	printf("WL");
	list_for_each_entry(bl, &buf_write_list, list)
		printf(" %u", ((struct mcount_shmem_buffer *)bl->shmem_buf)->size);
	printf("\n");
	record_remaining_buffer(&g_opts, -1);
	unlink_shmem_list();

	xasprintf(&path, "%s/%d.dat", dir, (int)pid);
	printf("FILE ");
	fp = fopen(path, "rb");
	if (fp) {
		while ((c = fgetc(fp)) != EOF)
			printf("%02x", c);
		fclose(fp);
	}
	printf("\n");
	/* whatever is left of these sessions in /dev/shm */
	{
		DIR *d = opendir(dir);
		struct dirent *e;
		while (d && (e = readdir(d))) {
			char pat[128];
			glob_t g;
			size_t i;
			if (strncmp(e->d_name, "sid-", 4))
				continue;
			snprintf(pat, sizeof(pat), "/dev/shm/uftrace-%.16s-*", e->d_name + 4);
			if (glob(pat, 0, NULL, &g) == 0) {
				for (i = 0; i < g.gl_pathc; i++)
					unlink(g.gl_pathv[i]);
				globfree(&g);
			}
		}
		if (d)
			closedir(d);
	}
	return 0;
}

/* ------------------------------------------------------------------ two producers, one recorder */
/*
 * Mode "multi":  c04_rec multi <dir> <bufsize> <producer-exe> <script0> <script1> <action>...
 *   Two producers (two tasks with their own tid and session, as far as the recorder is concerned the
 *   same situation as two threads) share <dir>/.channel and the recorder's lists.  Their scripts stop
 *   themselves ("S") before every hook call; the actions schedule them:
 *      P<i>      producer i runs to its next stop (one hook call)
 *      R         the recorder catches up (as in mode kill)
 *      K<i>:<e>  single-step producer i until the e-th visible store of its next hook call, SIGKILL it
 *   At the end the remaining producers are SIGKILLed where they stand; then the end-of-recording code runs.
 *      SHL <i>:<idx>:<flag> ...   shmem_list after the drain (i = producer index)
 *      WL <i>:<size> ...          queued buffers after flush_shmem_list
 *      FILE<i> <hex>              <tid_i>.dat
 */
struct prodst {
	pid_t pid;
	int alive;
	char sid[32];
	struct watch wb[MAXBUF];
	int nwb;
};
static struct prodst pr2[2];

static void load_watch(int i)
{
	memcpy(wb, pr2[i].wb, sizeof(wb));
	nwb = pr2[i].nwb;
	memcpy(sid, pr2[i].sid, sizeof(sid));
	child_tid = pr2[i].pid;
}
static void save_watch(int i)
{
	memcpy(pr2[i].wb, wb, sizeof(wb));
	pr2[i].nwb = nwb;
}

/* let producer i run until it stops itself again; returns 0 when it is gone */
static int advance(int i, int cont)
{
	int status;
	if (!pr2[i].alive)
		return 0;
	if (cont)
		ptrace(PTRACE_CONT, pr2[i].pid, 0, 0);
	for (;;) {
		if (waitpid(pr2[i].pid, &status, 0) < 0 || WIFEXITED(status) || WIFSIGNALED(status)) {
			pr2[i].alive = 0;
			return 0;
		}
		if (!WIFSTOPPED(status))
			continue;
		if (WSTOPSIG(status) == SIGSTOP)
			return 1;
		ptrace(PTRACE_CONT, pr2[i].pid, 0, WSTOPSIG(status) == SIGTRAP ? 0 : WSTOPSIG(status));
	}
}

static int prod_index(int tid)
{
	return tid == pr2[0].pid ? 0 : tid == pr2[1].pid ? 1 : 9;
}

static int mode_multi(int argc, char **argv)
{
	const char *dir = argv[2];
	int bufsize = atoi(argv[3]);
	const char *exe = argv[4];
	char **actions = &argv[7];
	int nact = argc - 7, a, i, pfd, status;
	char *channel = NULL;
	struct shmem_list *sl;
	struct buf_list *bl;

	logfp = stderr;
	outfp = stdout;
	g_opts.dirname = (char *)dir;
	g_opts.bufsize = bufsize;
	g_opts.nr_thread = 1;
	w_bufsize = bufsize;
	xasprintf(&channel, "%s/.channel", dir);
	if (mkfifo(channel, 0600) < 0 && errno != EEXIST)
		return 2;
	pfd = open(channel, O_RDONLY | O_NONBLOCK);
	if (pfd < 0 || pipe(thread_ctl) < 0)
		return 2;
	fcntl(thread_ctl[0], F_SETFL, O_NONBLOCK);
	fcntl(thread_ctl[1], F_SETFL, O_NONBLOCK);

	for (i = 0; i < 2; i++) {
		DIR *d;
		struct dirent *e;
		pid_t pid = fork();
		if (pid == 0) {
			char bs[32];
			snprintf(bs, sizeof(bs), "%d", bufsize);
			setenv("UFTRACE_DIR", dir, 1);
			setenv("UFTRACE_BUFFER", bs, 1);
			setenv("UFTRACE_PATTERN", "simple", 1);
			personality(ADDR_NO_RANDOMIZE);
			ptrace(PTRACE_TRACEME, 0, 0, 0);
			execl(exe, exe, argv[5 + i], NULL);
			_exit(99);
		}
		pr2[i].pid = pid;
		pr2[i].alive = 1;
		advance(i, 0); /* to its first stop: libmcount is loaded, its sid-*.map exists */
		d = opendir(dir);
		while (d && (e = readdir(d))) {
			if (!strncmp(e->d_name, "sid-", 4) && (i == 0 || strncmp(e->d_name + 4, pr2[0].sid, 16)))
				snprintf(pr2[i].sid, sizeof(pr2[i].sid), "%.16s", e->d_name + 4);
		}
		if (d)
			closedir(d);
	}

	for (a = 0; a < nact; a++) {
		const char *act = actions[a];
		if (act[0] == 'P') {
			advance(act[1] - '0', 1);
		}
		else if (act[0] == 'R') {
			drain_pipe(pfd, dir, bufsize);
			writer_catch_up();
		}
		else if (act[0] == 'K') {
			int want, seen = 0;
			long steps = 0;
			i = act[1] - '0';
			want = atoi(act + 3);
			if (!pr2[i].alive)
				continue;
			load_watch(i);
			poll_buffers();
			while (seen < want && steps < 2000000) {
				ptrace(PTRACE_SINGLESTEP, pr2[i].pid, 0, 0);
				if (waitpid(pr2[i].pid, &status, 0) < 0)
					break;
				steps++;
				if (!WIFSTOPPED(status) || WSTOPSIG(status) != SIGTRAP)
					break;
				seen += poll_buffers();
			}
			save_watch(i);
			if (steps == 0 || WIFSTOPPED(status)) {
				kill(pr2[i].pid, SIGKILL);
				waitpid(pr2[i].pid, &status, 0);
			}
			pr2[i].alive = 0;
		}
	}
	for (i = 0; i < 2; i++) {
		if (pr2[i].alive) {
			kill(pr2[i].pid, SIGKILL);
			waitpid(pr2[i].pid, &status, 0);
			pr2[i].alive = 0;
		}
	}

	drain_pipe(pfd, dir, bufsize);
	printf("SHL");
	list_for_each_entry(sl, &shmem_list_head, list) {
		int idx = -1, tid = -1, fd;
		unsigned hdr[2] = { 0, 0 };
		char name[160];
		sscanf(sl->id, "/uftrace-%*[^-]-%d-%d", &tid, &idx);
		snprintf(name, sizeof(name), "/dev/shm%s", sl->id);
		fd = open(name, O_RDONLY);
		if (fd >= 0) {
			if (read(fd, hdr, sizeof(hdr)) < 0)
				hdr[1] = 9999;
			close(fd);
		}
		printf(" %d:%d:%u", prod_index(tid), idx, hdr[1]);
	}
	printf("\n");
	flush_shmem_list(dir, bufsize);
	printf("WL");
	list_for_each_entry(bl, &buf_write_list, list)
		printf(" %d:%u", prod_index(bl->tid), ((struct mcount_shmem_buffer *)bl->shmem_buf)->size);
	printf("\n");
	record_remaining_buffer(&g_opts, -1);
	unlink_shmem_list();
	for (i = 0; i < 2; i++) {
		char *path = NULL;
		FILE *fp;
		int c;
		char pat[128];
		glob_t g;
		size_t k;
		xasprintf(&path, "%s/%d.dat", dir, (int)pr2[i].pid);
		printf("FILE%d ", i);
		fp = fopen(path, "rb");
		if (fp) {
			while ((c = fgetc(fp)) != EOF)
				printf("%02x", c);
			fclose(fp);
		}
		printf("\n");
		snprintf(pat, sizeof(pat), "/dev/shm/uftrace-%s-*", pr2[i].sid);
		if (pr2[i].sid[0] && glob(pat, 0, NULL, &g) == 0) {
			for (k = 0; k < g.gl_pathc; k++)
				unlink(g.gl_pathv[k]);
			globfree(&g);
		}
	}
	return 0;
}

/* ------------------------------------------------------------------ liveness mode */
static int mode_live(char *dir)
{
	char line[256];
	int pfds[2], hup[2], hupdata[2];
	pid_t kids[256];
	int nkids = 0, i;

	logfp = stderr;
	outfp = stdout;
	if (pipe(pfds) < 0 || pipe(hup) < 0 || pipe(hupdata) < 0)
		return 2;
	close(hup[1]); /* empty, no writer: POLLHUP */
	if (write(hupdata[1], "x", 1) != 1)
		return 2;
	close(hupdata[1]); /* data pending, no writer: POLLIN | POLLHUP */
	g_opts.dirname = dir;
	setvbuf(stdout, NULL, _IOLBF, 0);
	signal(SIGCHLD, SIG_DFL);
	while (fgets(line, sizeof(line), stdin)) {
		char cmd[32] = "";
		int a = 0, b = 0, c = 0;
		sscanf(line, "%31s %d %d %d", cmd, &a, &b, &c);
		if (!strcmp(cmd, "SPAWN")) {
			pid_t p = fork();
			if (p == 0) {
				prctl(PR_SET_PDEATHSIG, SIGKILL);
				close(pfds[0]);
				close(pfds[1]);
				close(hup[0]);
				close(hupdata[0]);
				for (;;)
					pause();
			}
			if (nkids < 256)
				kids[nkids++] = p;
			printf("PID %d\n", (int)p);
		}
		else if (!strcmp(cmd, "KILL")) {
			kill(a, SIGKILL);
			/* wait until it is a zombie */
			for (;;) {
				siginfo_t si;
				si.si_pid = 0;
				if (waitid(P_PID, a, &si, WEXITED | WNOWAIT) == 0 && si.si_pid == a)
					break;
			}
			printf("OK\n");
		}
		else if (!strcmp(cmd, "REAP")) {
			waitpid(a, NULL, 0);
			printf("OK\n");
		}
		else if (!strcmp(cmd, "MSG")) {
			struct uftrace_msg msg = { .magic = UFTRACE_MSG_MAGIC, .type = a, .len = 0 };
			struct uftrace_msg_task tmsg = { .time = 1, .pid = b, .tid = c };
			if (a != UFTRACE_MSG_FINISH)
				msg.len = sizeof(tmsg);
			if (write(pfds[1], &msg, sizeof(msg)) < 0)
				return 2;
			if (msg.len && write(pfds[1], &tmsg, sizeof(tmsg)) < 0)
				return 2;
			read_record_mmap(pfds[0], dir, 4096);
			printf("OK\n");
		}
		else if (!strcmp(cmd, "SIGCHLD")) {
			siginfo_t si;
			memset(&si, 0, sizeof(si));
			si.si_pid = a;
			sigchld_handler(SIGCHLD, &si, NULL);
			printf("OK\n");
		}
		else if (!strcmp(cmd, "CHECK")) {
			struct tid_list *tl;
			bool r = check_tid_list();
			printf("CHECK %d %d %d", (int)r, (int)child_exited, (int)finish_received);
			list_for_each_entry(tl, &tid_list_head, list)
				printf(" %d:%d:%d", tl->pid, tl->tid, (int)tl->exited);
			printf("\n");
		}
		else if (!strcmp(cmd, "RSTART") || !strcmp(cmd, "REND")) {
			char name[64];
			struct uftrace_msg msg = { .magic = UFTRACE_MSG_MAGIC,
						   .type = cmd[1] == 'S' ? UFTRACE_MSG_REC_START : UFTRACE_MSG_REC_END };
			snprintf(name, sizeof(name), "/uftrace-%016x-%d-%03d", (unsigned)a, b, c);
			msg.len = strlen(name);
			if (write(pfds[1], &msg, sizeof(msg)) < 0 || write(pfds[1], name, msg.len) < 0)
				return 2;
			read_record_mmap(pfds[0], dir, 4096);
			printf("OK\n");
		}
		else if (!strcmp(cmd, "SHL")) {
			struct shmem_list *sl;
			printf("SHL");
			list_for_each_entry(sl, &shmem_list_head, list) {
				unsigned sid = 0;
				int tid = 0, idx = 0;
				sscanf(sl->id, "/uftrace-%x-%d-%d", &sid, &tid, &idx);
				printf(" %u:%d:%d", sid, tid, idx);
			}
			printf("\n");
		}
		else if (!strcmp(cmd, "DROP")) {
			struct tid_list *tl;
			bool r = drop_pending_forks(a == 1 ? hup[0] : a == 2 ? hupdata[0] : pfds[0]);
			printf("DROP %d", (int)r);
			list_for_each_entry(tl, &tid_list_head, list)
				printf(" %d:%d:%d", tl->pid, tl->tid, (int)tl->exited);
			printf("\n");
		}
		else if (!strcmp(cmd, "QUIT"))
			break;
		else
			printf("?\n");
	}
	for (i = 0; i < nkids; i++) {
		kill(kids[i], SIGKILL);
		waitpid(kids[i], NULL, 0);
	}
	return 0;
}

int main(int argc, char **argv)
{
	if (argc >= 6 && !strcmp(argv[1], "kill"))
		return mode_kill(argc, argv);
	if (argc >= 7 && !strcmp(argv[1], "multi"))
		return mode_multi(argc, argv);
	if (argc >= 3 && !strcmp(argv[1], "live"))
		return mode_live(argv[2]);
	fprintf(stderr, "usage: c04_rec kill <dir> <bufsize> <producer> <script> <action>... | c04_rec live <dir>\n");
	return 2;
}
