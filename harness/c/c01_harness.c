/*
 * c01_harness - drives the return-address hijack of the REAL libmcount (object files of the scratch
 * build of /repo's current tree, linked statically) on numbered fake return-address slots, and the
 * real mcount_save_arch_context/mcount_restore_arch_context pair on chosen xmm contents.
 *
 * One operation per line on stdin; one result line per operation on stdout, each followed by
 * " | <mtd.idx> <slot0> <slot1> ... " where slot0 is mtd.cygprof_dummy:
 *
 *   P <s> <v>        a `call` stores return address id v into slot s                -> "P"
 *   E <k> <s>        mcount_entry(&slot[s], f<k>+4, regs)                           -> "E <ret> <errno_ok>"
 *   N                nothing (an entry that is not instrumented)                    -> "N"
 *   Z                next case: clear all slots and the dummy slot (mtd.idx must be 0)  -> "Z"
 *   CE <k> <p>       __cyg_profile_func_enter(f<k>, (void *)p)                      -> "CE <errno_ok>"
 *   CX <k> <p>       __cyg_profile_func_exit(f<k>, (void *)p)                       -> "CX <errno_ok>"
 *   R <s>            return through slot s: while it holds mcount_return_fn run mcount_exit and
 *                    store what it hands back (as the trampoline does)             -> "R <exits> <word> <errno_ok>"
 *   XMM <64 hex words>  xmm0..15 before (lo hi ...), then the clobber values; runs
 *                    save; clobber; restore                                         -> "XMM <32 hex words>"
 *   QUIT
 *
 * Words print as r<n> (a return-address id), T (mcount_return_fn), PT (plthook_return), x<hex>.
 * The fake clock overwrites errno on every call, so a hook that forgets to restore errno shows.
 */
#define _GNU_SOURCE
#include <stdio.h>
#include <stdlib.h>
#include <string.h>
#include <stdint.h>
#include <time.h>
#include <errno.h>
#include <unistd.h>
#include <sys/resource.h>

#include "uftrace.h"
#include "libmcount/mcount.h"
#include "libmcount/internal.h"
#include "mcount-arch.h"

static volatile uint64_t fake_now = 1000;
static volatile int fake_on;

int clock_gettime(clockid_t id, struct timespec *ts)
{
	extern int __clock_gettime(clockid_t, struct timespec *);
	if (!fake_on)
		return __clock_gettime(id, ts);
	fake_now += 100;
	ts->tv_sec = fake_now / 1000000000ULL;
	ts->tv_nsec = fake_now % 1000000000ULL;
	errno = 4242; /* something inside the hook disturbs errno */
	return 0;
}

#define FDEF(n, fill)                                                                              \
	asm(".text\n .globl f" #n "\n .type f" #n ",@function\n .p2align 8\n f" #n ":\n .fill " #fill \
	    ",1,0x90\n ret\n .size f" #n ", .-f" #n "\n");                                            \
	extern void f##n(void);
FDEF(0, 16) FDEF(1, 24) FDEF(2, 32) FDEF(3, 40) FDEF(4, 48) FDEF(5, 56) FDEF(6, 64) FDEF(7, 72)
FDEF(8, 16) FDEF(9, 24) FDEF(10, 32) FDEF(11, 40) FDEF(12, 48) FDEF(13, 56) FDEF(14, 64) FDEF(15, 72)
static void (*const funcs[])(void) = { f0, f1, f2,  f3,  f4,  f5,  f6,  f7,
				       f8, f9, f10, f11, f12, f13, f14, f15 };
#define NFUNC 16

extern int mcount_entry(unsigned long *parent_loc, unsigned long child, struct mcount_regs *regs);
extern unsigned long mcount_exit(long *retval);
extern void __cyg_profile_func_enter(void *child, void *parent);
extern void __cyg_profile_func_exit(void *child, void *parent);
extern unsigned long mcount_return_fn;
extern TLS struct mcount_thread_data mtd;
extern void mcount_save_arch_context(struct mcount_arch_context *ctx);
extern void mcount_restore_arch_context(struct mcount_arch_context *ctx);

#define NSLOT 48
static unsigned long slots[NSLOT];
static int nshow = 16;

/* xmm0..15 := before; save(ctx); xmm0..15 := clobber; restore(ctx); after := xmm0..15 */
void xmm_roundtrip(const uint64_t *before, const uint64_t *clobber, uint64_t *after, void *ctx);
#define X16(op, base)                                                                              \
	op(0, base) op(1, base) op(2, base) op(3, base) op(4, base) op(5, base) op(6, base)        \
		op(7, base) op(8, base) op(9, base) op(10, base) op(11, base) op(12, base)         \
			op(13, base) op(14, base) op(15, base)
#define LD(i, base) " movdqu " #i "*16(%" base "), %xmm" #i "\n"
#define ST(i, base) " movdqu %xmm" #i ", " #i "*16(%" base ")\n"
asm(".text\n .globl xmm_roundtrip\n .type xmm_roundtrip,@function\n xmm_roundtrip:\n"
    " push %rbx\n push %r12\n push %r13\n push %r14\n push %rbp\n"
    " mov %rdi, %rbx\n mov %rsi, %r12\n mov %rdx, %r13\n mov %rcx, %r14\n"
    X16(LD, "rbx")
    " mov %r14, %rdi\n call mcount_save_arch_context\n"
    X16(LD, "r12")
    " mov %r14, %rdi\n call mcount_restore_arch_context\n"
    X16(ST, "r13")
    " pop %rbp\n pop %r14\n pop %r13\n pop %r12\n pop %rbx\n ret\n"
    " .size xmm_roundtrip, .-xmm_roundtrip\n");

static void pword(unsigned long v)
{
	if (v == mcount_return_fn && v != 0)
		printf(" T");
	else if (v == (unsigned long)plthook_return)
		printf(" PT");
	else if (v < 1000000)
		printf(" r%lu", v);
	else
		printf(" x%lx", v);
}

static void snap(void)
{
	int i;
	printf(" | %d", mtd.idx);
	pword(mtd.cygprof_dummy);
	for (i = 1; i < nshow; i++)
		pword(slots[i]);
	printf("\n");
}

int main(int argc, char **argv)
{
	static char line[1 << 14];

	if (argc > 1)
		nshow = atoi(argv[1]);
	if (nshow > NSLOT)
		nshow = NSLOT;
	setvbuf(stdout, NULL, _IOFBF, 1 << 16);
	fake_on = 1;
	while (fgets(line, sizeof line, stdin)) {
		char op[8] = "";
		int k = 0;
		unsigned long s = 0, v = 0;

		if (line[0] == '#' || line[0] == '\n')
			continue;
		sscanf(line, "%7s", op);
		if (!strcmp(op, "QUIT"))
			break;
		if (!strcmp(op, "P")) {
			sscanf(line, "%*s %lu %lu", &s, &v);
			slots[s % NSLOT] = v;
			printf("P");
		}
		else if (!strcmp(op, "N")) {
			printf("N");
		}
		else if (!strcmp(op, "Z")) {
			memset(slots, 0, sizeof(slots));
			mtd.cygprof_dummy = 0;
			printf("Z");
		}
		else if (!strcmp(op, "E")) {
			struct mcount_regs regs;
			int r;
			sscanf(line, "%*s %d %lu", &k, &s);
			memset(&regs, 0, sizeof(regs));
			errno = 77;
			r = mcount_entry(&slots[s % NSLOT], (unsigned long)funcs[k % NFUNC] + 4, &regs);
			printf("E %d %d", r, errno == 77);
		}
		else if (!strcmp(op, "CE") || !strcmp(op, "CX")) {
			sscanf(line, "%*s %d %lu", &k, &v);
			errno = 66;
			if (op[1] == 'E')
				__cyg_profile_func_enter((void *)funcs[k % NFUNC], (void *)v);
			else
				__cyg_profile_func_exit((void *)funcs[k % NFUNC], (void *)v);
			printf("%s %d", op, errno == 66);
		}
		else if (!strcmp(op, "R")) {
			long rv[4] = { 42, 43, 0, 0 };
			int n = 0, ok = 1;
			sscanf(line, "%*s %lu", &s);
			s %= NSLOT;
			while (mcount_return_fn && slots[s] == mcount_return_fn && n < 100000) {
				if (mtd.idx <= 0)
					break; /* mcount_exit would assert: report the trampoline as target */
				errno = 55;
				slots[s] = mcount_exit(rv);
				if (errno != 55)
					ok = 0;
				n++;
			}
			printf("R %d", n);
			pword(slots[s]);
			printf(" %d", ok);
		}
		else if (!strcmp(op, "XMM")) {
			uint64_t before[32], clobber[32], after[32];
			static uint64_t ctx[64] __attribute__((aligned(16)));
			char *p = line + 3;
			int i;
			for (i = 0; i < 64; i++) {
				uint64_t w = strtoull(p, &p, 16);
				if (i < 32)
					before[i] = w;
				else
					clobber[i - 32] = w;
			}
			memset(ctx, 0, sizeof(ctx));
			memset(after, 0xee, sizeof(after));
			xmm_roundtrip(before, clobber, after, ctx);
			printf("XMM");
			for (i = 0; i < 32; i++)
				printf(" %llx", (unsigned long long)after[i]);
		}
		else {
			printf("? %s", op);
		}
		snap();
	}
	fflush(stdout);
	_exit(0); /* skip libmcount's destructor */
}
