/*
 * c01_harness - drives the return-address hijack of the REAL libmcount (object files of the scratch
 * build of /repo's current tree, linked statically) on numbered fake return-address slots, and the
 * real mcount_save_arch_context/mcount_restore_arch_context pair on chosen xmm contents.
 *
 * One operation per line on stdin; one result line per operation on stdout, each followed by
 * " | <mtd.idx> <slot0> <slot1> ... " where slot0 is mtd.cygprof_dummy:
 *
 *   P <s> <v>        a `call` stores return address id v into slot s                -> "P"
 *   E <k> <s>        mcount_entry(&slot[s], f<k>+4, regs)                           -> "E <ret> <errno_ok>"
 *   N                nothing (an entry that is not instrumented)                    -> "N"
 *   STOP             tracing is being finished (as by a `finish` trigger in another thread): sets
 *                    MCOUNT_GFL_FINISH; the next exit hook tears the thread's shadow stack down    -> "STOP"
 *   T <n>            the following operations are executed by thread n (0 = initial thread; each thread has
 *                    its own slots and libmcount's own thread-local shadow stack)          (no output)
 *   Z                next case: clear all slots and the dummy slot (mtd.idx must be 0)  -> "Z"
 *   PE <k> <s>       plthook_entry(&slot[s], k, module, regs) on a fake module whose PLT symbol k is f<k>
 *                    (only in the build with -DC01_WITH_PLT)                        -> "PE <ret!=0> <errno_ok>"
 *   CE <k> <p>       __cyg_profile_func_enter(f<k>, (void *)p)                      -> "CE <errno_ok>"
 *   CX <k> <p>       __cyg_profile_func_exit(f<k>, (void *)p)                       -> "CX <errno_ok>"
 *   R <s>            return through slot s: while it holds mcount_return_fn / plthook_return run
 *                    mcount_exit / plthook_exit and store what it hands back (as the trampolines
 *                    do)                                                            -> "R <exits> <word> <errno_ok>"
 *   XE <k> <s> <32 hex words>   like E, but with xmm0..15 loaded from the words when the hook is called and
 *                    every xmm register overwritten by a libc function the hook reaches (the
 *                    interposed clock_gettime)                      -> "XE <ret> <errno_ok> <32 hex words after>"
 *   XR <s> <32 hex words>       like R, the same way around every exit hook  -> "XR <exits> <word> <errno_ok> <32 words>"
 *   YMM <128 hex words> ymm0..15 before (4 words each, low first), then the clobber values; runs
 *                    save; clobber; restore on the 256-bit registers if the CPU has AVX, else on the xmm
 *                    registers (upper words then echo the clobber)              -> "YMM <avx> <64 hex words>"
 *   YE <k> <s> <64 hex words>   like XE with the 256-bit registers ymm0..15 (AVX machines only): the libc
 *                    stand-in overwrites them and ends with vzeroupper      -> "YE <ret> <errno_ok> <64 hex words after>"
 *   YR <s> <64 hex words>       like XR with ymm0..15                        -> "YR <exits> <word> <errno_ok> <64 words>"
 *   XMM <64 hex words>  xmm0..15 before (lo hi ...), then the clobber values; runs
 *                    save; clobber; restore                                         -> "XMM <32 hex words>"
 *   QUIT
 *
 * Words print as r<n> (a return-address id), T (mcount_return_fn), PT (plthook_return), x<hex>.
 * The fake clock overwrites errno on every call, so a hook that forgets to restore errno shows.
 */
#ifdef C01_WITH_PLT
/* the PLT hook's bookkeeping (plthook_modules) is static: take the source of /repo's current tree in
 * (the harness is then linked without plthook.op) */
#include "libmcount/plthook.c"
#undef PR_FMT
#undef PR_DOMAIN
#endif
#define _GNU_SOURCE
#include <stdio.h>
#include <stdlib.h>
#include <string.h>
#include <stdint.h>
#include <time.h>
#include <errno.h>
#include <unistd.h>
#include <sys/resource.h>

#include "uftrace.h"
#include "libmcount/mcount.h"
#include "libmcount/internal.h"
#include "mcount-arch.h"

static volatile uint64_t fake_now = 1000;
static volatile int fake_on;
static volatile int clobber_xmm;
static __thread unsigned int csr_in = 0x1f80, csr_out;

int clock_gettime(clockid_t id, struct timespec *ts)
{
	extern int __clock_gettime(clockid_t, struct timespec *);
	if (!fake_on)
		return __clock_gettime(id, ts);
	fake_now += 100;
	ts->tv_sec = fake_now / 1000000000ULL;
	ts->tv_nsec = fake_now % 1000000000ULL;
	errno = 4242; /* something inside the hook disturbs errno */
	if (clobber_xmm) { /* ... the SSE control/status register: round toward zero, then an inexact operation */
		unsigned int csr = 0x5f80;
		volatile double one = 1.0, three = 3.0, q;
		asm volatile("ldmxcsr %0" ::"m"(csr));
		q = one / three;
		(void)q;
	}
	if (clobber_xmm) /* ... and, like libc code does, every xmm register */
		asm volatile("pcmpeqd %%xmm0, %%xmm0\n pcmpeqd %%xmm1, %%xmm1\n pcmpeqd %%xmm2, %%xmm2\n"
			     "pcmpeqd %%xmm3, %%xmm3\n pcmpeqd %%xmm4, %%xmm4\n pcmpeqd %%xmm5, %%xmm5\n"
			     "pcmpeqd %%xmm6, %%xmm6\n pcmpeqd %%xmm7, %%xmm7\n pcmpeqd %%xmm8, %%xmm8\n"
			     "pcmpeqd %%xmm9, %%xmm9\n pcmpeqd %%xmm10, %%xmm10\n pcmpeqd %%xmm11, %%xmm11\n"
			     "pcmpeqd %%xmm12, %%xmm12\n pcmpeqd %%xmm13, %%xmm13\n pcmpeqd %%xmm14, %%xmm14\n"
			     "pcmpeqd %%xmm15, %%xmm15\n" ::
				     : "xmm0", "xmm1", "xmm2", "xmm3", "xmm4", "xmm5", "xmm6", "xmm7", "xmm8",
				       "xmm9", "xmm10", "xmm11", "xmm12", "xmm13", "xmm14", "xmm15");
	if (clobber_xmm == 3) /* AVX-512 machine: all of zmm0-7 written, then vzeroupper */
		asm volatile("vpternlogd $0xff, %%zmm0, %%zmm0, %%zmm0\n vpternlogd $0xff, %%zmm1, %%zmm1, %%zmm1\n"
			     "vpternlogd $0xff, %%zmm2, %%zmm2, %%zmm2\n vpternlogd $0xff, %%zmm3, %%zmm3, %%zmm3\n"
			     "vpternlogd $0xff, %%zmm4, %%zmm4, %%zmm4\n vpternlogd $0xff, %%zmm5, %%zmm5, %%zmm5\n"
			     "vpternlogd $0xff, %%zmm6, %%zmm6, %%zmm6\n vpternlogd $0xff, %%zmm7, %%zmm7, %%zmm7\n"
			     "vzeroupper\n" ::: "memory");
	if (clobber_xmm == 2) /* AVX machine: what libc's AVX2 string functions leave: upper halves cleared */
		asm volatile("vpcmpeqd %%ymm0, %%ymm0, %%ymm0\n vpcmpeqd %%ymm1, %%ymm1, %%ymm1\n"
			     "vpcmpeqd %%ymm2, %%ymm2, %%ymm2\n vpcmpeqd %%ymm3, %%ymm3, %%ymm3\n"
			     "vpcmpeqd %%ymm4, %%ymm4, %%ymm4\n vpcmpeqd %%ymm5, %%ymm5, %%ymm5\n"
			     "vpcmpeqd %%ymm6, %%ymm6, %%ymm6\n vpcmpeqd %%ymm7, %%ymm7, %%ymm7\n"
			     "vzeroupper\n" ::: "memory");
	return 0;
}

#define FDEF(n, fill)                                                                              \
	asm(".text\n .globl f" #n "\n .type f" #n ",@function\n .p2align 8\n f" #n ":\n .fill " #fill \
	    ",1,0x90\n ret\n .size f" #n ", .-f" #n "\n");                                            \
	extern void f##n(void);
FDEF(0, 16) FDEF(1, 24) FDEF(2, 32) FDEF(3, 40) FDEF(4, 48) FDEF(5, 56) FDEF(6, 64) FDEF(7, 72)
FDEF(8, 16) FDEF(9, 24) FDEF(10, 32) FDEF(11, 40) FDEF(12, 48) FDEF(13, 56) FDEF(14, 64) FDEF(15, 72)
static void (*const funcs[])(void) = { f0, f1, f2,  f3,  f4,  f5,  f6,  f7,
				       f8, f9, f10, f11, f12, f13, f14, f15 };
#define NFUNC 16

extern int mcount_entry(unsigned long *parent_loc, unsigned long child, struct mcount_regs *regs);
extern unsigned long mcount_exit(long *retval);
extern void __cyg_profile_func_enter(void *child, void *parent);
extern void __cyg_profile_func_exit(void *child, void *parent);
extern unsigned long mcount_return_fn;
extern TLS struct mcount_thread_data mtd;
extern void mcount_save_arch_context(struct mcount_arch_context *ctx);
extern void mcount_restore_arch_context(struct mcount_arch_context *ctx);

#ifdef C01_WITH_PLT
#define FAKE_MODULE_ID 0x5eed0001UL
static struct uftrace_symbol fake_syms[NFUNC];
static unsigned long fake_resolved[NFUNC];
static unsigned long fake_got[NFUNC + 8];
static struct plthook_arch_context fake_arch;
static struct plthook_data fake_pd;
static char fake_names[NFUNC][8];

static void setup_fake_module(void)
{
	int i;
	for (i = 0; i < NFUNC; i++) {
		snprintf(fake_names[i], sizeof(fake_names[i]), "f%d", i);
		fake_syms[i].addr = (unsigned long)funcs[i];
		fake_syms[i].size = 16;
		fake_syms[i].type = ST_PLT_FUNC;
		fake_syms[i].name = fake_names[i];
		fake_resolved[i] = (unsigned long)funcs[i]; /* already resolved: the GOT is left alone */
	}
	fake_pd.mod_name = "c01-fake-module";
	fake_pd.module_id = FAKE_MODULE_ID;
	fake_pd.dsymtab.sym = fake_syms;
	fake_pd.dsymtab.nr_sym = NFUNC;
	fake_pd.pltgot_ptr = fake_got;
	fake_pd.resolved_addr = fake_resolved;
	fake_pd.special_funcs = NULL;
	fake_pd.nr_special = 0;
	fake_pd.arch = &fake_arch;
	list_add_tail(&fake_pd.list, &plthook_modules);
}
#endif

#define NSLOT 48
static __thread unsigned long slots[NSLOT]; /* every thread has its own stack */
static int nshow = 16;
static int reversed; /* slot s lives at slots[NSLOT - 1 - s]: deeper calls at lower addresses, as on a real stack */
#define SLOT(s) (reversed ? &slots[NSLOT - 1 - ((s) % NSLOT)] : &slots[(s) % NSLOT])

/* xmm0..15 := before; save(ctx); xmm0..15 := clobber; restore(ctx); after := xmm0..15 */
void xmm_roundtrip(const uint64_t *before, const uint64_t *clobber, uint64_t *after, void *ctx);
#define X16(op, base)                                                                              \
	op(0, base) op(1, base) op(2, base) op(3, base) op(4, base) op(5, base) op(6, base)        \
		op(7, base) op(8, base) op(9, base) op(10, base) op(11, base) op(12, base)         \
			op(13, base) op(14, base) op(15, base)
#define LD(i, base) " movdqu " #i "*16(%" base "), %xmm" #i "\n"
#define ST(i, base) " movdqu %xmm" #i ", " #i "*16(%" base ")\n"
asm(".text\n .globl xmm_roundtrip\n .type xmm_roundtrip,@function\n xmm_roundtrip:\n"
    " push %rbx\n push %r12\n push %r13\n push %r14\n push %rbp\n"
    " mov %rdi, %rbx\n mov %rsi, %r12\n mov %rdx, %r13\n mov %rcx, %r14\n"
    X16(LD, "rbx")
    " mov %r14, %rdi\n call mcount_save_arch_context\n"
    X16(LD, "r12")
    " mov %r14, %rdi\n call mcount_restore_arch_context\n"
    X16(ST, "r13")
    " pop %rbp\n pop %r14\n pop %r13\n pop %r12\n pop %rbx\n ret\n"
    " .size xmm_roundtrip, .-xmm_roundtrip\n");

/* the same with the 256-bit registers (only called when the CPU has AVX) */
void ymm_roundtrip(const uint64_t *before, const uint64_t *clobber, uint64_t *after, void *ctx);
#define LDY(i, base) " vmovdqu " #i "*32(%" base "), %ymm" #i "\n"
#define STY(i, base) " vmovdqu %ymm" #i ", " #i "*32(%" base ")\n"
asm(".text\n .globl ymm_roundtrip\n .type ymm_roundtrip,@function\n ymm_roundtrip:\n"
    " push %rbx\n push %r12\n push %r13\n push %r14\n push %rbp\n"
    " mov %rdi, %rbx\n mov %rsi, %r12\n mov %rdx, %r13\n mov %rcx, %r14\n"
    X16(LDY, "rbx")
    " mov %r14, %rdi\n call mcount_save_arch_context\n"
    X16(LDY, "r12")
    " mov %r14, %rdi\n call mcount_restore_arch_context\n"
    X16(STY, "r13")
    " vzeroupper\n"
    " pop %rbp\n pop %r14\n pop %r13\n pop %r12\n pop %rbx\n ret\n"
    " .size ymm_roundtrip, .-ymm_roundtrip\n");

/* after := xmm0..15 after calling fn(a1, a2, a3) with xmm0..15 = before; returns fn's result */
unsigned long call_with_xmm(const uint64_t *before, uint64_t *after, void *fn, long a1, long a2, long a3);
asm(".text\n .globl call_with_xmm\n .type call_with_xmm,@function\n call_with_xmm:\n"
    " push %rbx\n push %r12\n push %r13\n push %r14\n push %rbp\n"
    " mov %rdi, %rbx\n mov %rsi, %r12\n mov %rdx, %r13\n"
    " mov %rcx, %rdi\n mov %r8, %rsi\n mov %r9, %rdx\n"
    X16(LD, "rbx")
    " call *%r13\n"
    X16(ST, "r12")
    " pop %rbp\n pop %r14\n pop %r13\n pop %r12\n pop %rbx\n ret\n"
    " .size call_with_xmm, .-call_with_xmm\n");

unsigned long call_with_xmm(const uint64_t *before, uint64_t *after, void *fn, long a1, long a2, long a3);
unsigned long call_with_ymm(const uint64_t *before, uint64_t *after, void *fn, long a1, long a2, long a3);
/* the same with the 512-bit registers (only called when the CPU has AVX-512F) */
void zmm_roundtrip(const uint64_t *before, const uint64_t *clobber, uint64_t *after, void *ctx);
#define LDZ(i, base) " vmovdqu64 " #i "*64(%" base "), %zmm" #i "\n"
#define STZ(i, base) " vmovdqu64 %zmm" #i ", " #i "*64(%" base ")\n"
asm(".text\n .globl zmm_roundtrip\n .type zmm_roundtrip,@function\n zmm_roundtrip:\n"
    " push %rbx\n push %r12\n push %r13\n push %r14\n push %rbp\n"
    " mov %rdi, %rbx\n mov %rsi, %r12\n mov %rdx, %r13\n mov %rcx, %r14\n"
    X16(LDZ, "rbx")
    " mov %r14, %rdi\n call mcount_save_arch_context\n"
    X16(LDZ, "r12")
    " mov %r14, %rdi\n call mcount_restore_arch_context\n"
    X16(STZ, "r13")
    " vzeroupper\n"
    " pop %rbp\n pop %r14\n pop %r13\n pop %r12\n pop %rbx\n ret\n"
    " .size zmm_roundtrip, .-zmm_roundtrip\n");
unsigned long call_with_zmm(const uint64_t *before, uint64_t *after, void *fn, long a1, long a2, long a3);
asm(".text\n .globl call_with_zmm\n .type call_with_zmm,@function\n call_with_zmm:\n"
    " push %rbx\n push %r12\n push %r13\n push %r14\n push %rbp\n"
    " mov %rdi, %rbx\n mov %rsi, %r12\n mov %rdx, %r13\n"
    " mov %rcx, %rdi\n mov %r8, %rsi\n mov %r9, %rdx\n"
    X16(LDZ, "rbx")
    " call *%r13\n"
    X16(STZ, "r12")
    " vzeroupper\n"
    " pop %rbp\n pop %r14\n pop %r13\n pop %r12\n pop %rbx\n ret\n"
    " .size call_with_zmm, .-call_with_zmm\n");

/* 0: xmm only, 1: AVX, 2: AVX-512F */
static int vec_level(void)
{
	if (__builtin_cpu_supports("avx512f"))
		return 2;
	return __builtin_cpu_supports("avx") ? 1 : 0;
}

/* registers are passed around as 16 x 8 words; narrower machines use the low words (words above the
 * vector length read as 0 after a VEX load; on an xmm-only machine they do not exist: reported as 0) */
static void pack(const uint64_t *full, uint64_t *narrow, int nw)
{
	int r, i;
	for (r = 0; r < 16; r++)
		for (i = 0; i < nw; i++)
			narrow[r * nw + i] = full[r * 8 + i];
}
static void unpack(const uint64_t *narrow, uint64_t *full, int nw)
{
	int r, i;
	for (r = 0; r < 16; r++)
		for (i = 0; i < 8; i++)
			full[r * 8 + i] = i < nw ? narrow[r * nw + i] : 0;
}
static void vec_roundtrip(int level, const uint64_t *before, const uint64_t *clobber, uint64_t *after, void *ctx)
{
	static __thread uint64_t b[128], c[128], a[128];
	int nw = level == 2 ? 8 : level == 1 ? 4 : 2;
	pack(before, b, nw);
	pack(clobber, c, nw);
	if (level == 2)
		zmm_roundtrip(b, c, a, ctx);
	else if (level == 1)
		ymm_roundtrip(b, c, a, ctx);
	else
		xmm_roundtrip(b, c, a, ctx);
	unpack(a, after, nw);
	if (level == 0) { /* legacy loads leave the (non-existing) upper words alone: echo the clobber */
		int r, i;
		for (r = 0; r < 16; r++)
			for (i = 2; i < 8; i++)
				after[r * 8 + i] = clobber[r * 8 + i];
	}
}
static unsigned long vec_call(int level, const uint64_t *before, uint64_t *after, void *fn, long a1, long a2, long a3)
{
	static __thread uint64_t b[128], a[128];
	int nw = level == 2 ? 8 : level == 1 ? 4 : 2;
	unsigned long r;
	pack(before, b, nw);
	memset(a, 0xee, sizeof(a));
	{
		unsigned int in = csr_in, out, def = 0x1f80;
		asm volatile("ldmxcsr %0" ::"m"(in));
		if (level == 2)
			r = call_with_zmm(b, a, fn, a1, a2, a3);
		else if (level == 1)
			r = call_with_ymm(b, a, fn, a1, a2, a3);
		else
			r = call_with_xmm(b, a, fn, a1, a2, a3);
		asm volatile("stmxcsr %0" : "=m"(out));
		asm volatile("ldmxcsr %0" ::"m"(def));
		csr_out = out;
	}
	unpack(a, after, nw);
	return r;
}

/* the same with ymm0..15 (4 words each); only used when the CPU has AVX */
unsigned long call_with_ymm(const uint64_t *before, uint64_t *after, void *fn, long a1, long a2, long a3);
asm(".text\n .globl call_with_ymm\n .type call_with_ymm,@function\n call_with_ymm:\n"
    " push %rbx\n push %r12\n push %r13\n push %r14\n push %rbp\n"
    " mov %rdi, %rbx\n mov %rsi, %r12\n mov %rdx, %r13\n"
    " mov %rcx, %rdi\n mov %r8, %rsi\n mov %r9, %rdx\n"
    X16(LDY, "rbx")
    " call *%r13\n"
    X16(STY, "r12")
    " vzeroupper\n"
    " pop %rbp\n pop %r14\n pop %r13\n pop %r12\n pop %rbx\n ret\n"
    " .size call_with_ymm, .-call_with_ymm\n");

static void read_words(char *p, uint64_t *w, int n)
{
	int i;
	for (i = 0; i < n; i++)
		w[i] = strtoull(p, &p, 16);
}

static void pword(unsigned long v)
{
	if (v == mcount_return_fn && v != 0)
		printf(" T");
	else if (v == (unsigned long)plthook_return)
		printf(" PT");
	else if (v < 1000000)
		printf(" r%lu", v);
	else
		printf(" x%lx", v);
}

static void snap(void)
{
	int i;
	printf(" | %d", mtd.idx);
	pword(mtd.cygprof_dummy);
	for (i = 1; i < nshow; i++)
		pword(*SLOT(i));
	printf("\n");
}

static void do_op(char *line)
{
	char op[8] = "";
	int k = 0;
	unsigned long s = 0, v = 0;

	sscanf(line, "%7s", op);
	{
		if (!strcmp(op, "P")) {
			sscanf(line, "%*s %lu %lu", &s, &v);
			*SLOT(s) = v;
			printf("P");
		}
		else if (!strcmp(op, "N")) {
			printf("N");
		}
		else if (!strcmp(op, "STOP")) {
			mcount_global_flags |= MCOUNT_GFL_FINISH;
			printf("STOP");
		}
		else if (!strcmp(op, "Z")) {
			memset(slots, 0, sizeof(slots));
			mtd.cygprof_dummy = 0;
			printf("Z");
		}
		else if (!strcmp(op, "E")) {
			struct mcount_regs regs;
			int r;
			sscanf(line, "%*s %d %lu", &k, &s);
			memset(&regs, 0, sizeof(regs));
			errno = 77;
			r = mcount_entry(SLOT(s), (unsigned long)funcs[k % NFUNC] + 4, &regs);
			printf("E %d %d", r, errno == 77);
		}
#ifdef C01_WITH_PLT
		else if (!strcmp(op, "PE")) {
			struct mcount_regs regs;
			unsigned long r;
			sscanf(line, "%*s %d %lu", &k, &s);
			memset(&regs, 0, sizeof(regs));
			errno = 88;
			r = plthook_entry(SLOT(s), (unsigned long)(k % NFUNC), FAKE_MODULE_ID, &regs);
			printf("PE %d %d", r != 0, errno == 88);
		}
#endif
		else if (!strcmp(op, "CE") || !strcmp(op, "CX")) {
			sscanf(line, "%*s %d %lu", &k, &v);
			errno = 66;
			if (op[1] == 'E')
				__cyg_profile_func_enter((void *)funcs[k % NFUNC], (void *)v);
			else
				__cyg_profile_func_exit((void *)funcs[k % NFUNC], (void *)v);
			printf("%s %d", op, errno == 66);
		}
		else if (!strcmp(op, "R")) {
			long rv[4] = { 42, 43, 0, 0 };
			int n = 0, ok = 1;
			sscanf(line, "%*s %lu", &s);
			s %= NSLOT;
			unsigned long *sl = SLOT(s);
			while (n < 100000) {
				int is_m = mcount_return_fn && (*sl) == mcount_return_fn;
				int is_p = (*sl) == (unsigned long)plthook_return;
				if (!is_m && !is_p)
					break;
				if (mtd.idx <= 0)
					break; /* the exit hook would assert: report the trampoline as target */
				errno = 55;
#ifdef C01_WITH_PLT
				if (is_p)
					(*sl) = plthook_exit(rv);
				else
#endif
					(*sl) = mcount_exit(rv);
				if (errno != 55)
					ok = 0;
				n++;
			}
			printf("R %d", n);
			pword((*sl));
			printf(" %d", ok);
		}
		else if (!strcmp(op, "XE")) {
			struct mcount_regs regs;
			uint64_t before[32], after[32];
			char *p = line;
			int r, i, e;
			strtok(p, " ");
			k = atoi(strtok(NULL, " "));
			s = strtoul(strtok(NULL, " "), NULL, 10);
			read_words(strtok(NULL, "\n"), before, 32);
			memset(&regs, 0, sizeof(regs));
			memset(after, 0xee, sizeof(after));
			clobber_xmm = 1;
			errno = 77;
			r = (int)call_with_xmm(before, after, (void *)mcount_entry, (long)&slots[s % NSLOT],
					       (long)funcs[k % NFUNC] + 4, (long)&regs);
			e = errno;
			clobber_xmm = 0;
			printf("XE %d %d", r, e == 77);
			for (i = 0; i < 32; i++)
				printf(" %llx", (unsigned long long)after[i]);
		}
		else if (!strcmp(op, "XR")) {
			long rv[4] = { 42, 43, 0, 0 };
			uint64_t before[32], after[32];
			int n = 0, ok = 1, i;
			strtok(line, " ");
			s = strtoul(strtok(NULL, " "), NULL, 10) % NSLOT;
			read_words(strtok(NULL, "\n"), before, 32);
			memcpy(after, before, sizeof(after));
			while (mcount_return_fn && slots[s] == mcount_return_fn && mtd.idx > 0 && n < 100000) {
				clobber_xmm = 1;
				errno = 55;
				slots[s] = call_with_xmm(before, after, (void *)mcount_exit, (long)rv, 0, 0);
				if (errno != 55)
					ok = 0;
				clobber_xmm = 0;
				n++;
			}
			printf("XR %d", n);
			pword(slots[s]);
			printf(" %d", ok);
			for (i = 0; i < 32; i++)
				printf(" %llx", (unsigned long long)after[i]);
		}
		else if (!strcmp(op, "VE")) {
			struct mcount_regs regs;
			static __thread uint64_t before[128], after[128];
			int r, i, e, level = vec_level();
			strtok(line, " ");
			k = atoi(strtok(NULL, " "));
			s = strtoul(strtok(NULL, " "), NULL, 10);
			{
				static __thread uint64_t w[129];
				read_words(strtok(NULL, "\n"), w, 129);
				memcpy(before, w, sizeof(before));
				csr_in = (unsigned int)w[128];
			}
			memset(&regs, 0, sizeof(regs));
			clobber_xmm = 1 + level;
			errno = 77;
			r = (int)vec_call(level, before, after, (void *)mcount_entry, (long)SLOT(s),
					  (long)funcs[k % NFUNC] + 4, (long)&regs);
			e = errno;
			clobber_xmm = 0;
			printf("VE %d %d %d", level, r, e == 77);
			for (i = 0; i < 128; i++)
				printf(" %llx", (unsigned long long)after[i]);
			printf(" %x", csr_out);
		}
		else if (!strcmp(op, "VR")) {
			long rv[4] = { 42, 43, 0, 0 };
			static __thread uint64_t before[128], after[128];
			unsigned long *sl;
			int n = 0, ok = 1, i, level = vec_level();
			strtok(line, " ");
			s = strtoul(strtok(NULL, " "), NULL, 10) % NSLOT;
			sl = SLOT(s);
			{
				static __thread uint64_t w[129];
				read_words(strtok(NULL, "\n"), w, 129);
				memcpy(before, w, sizeof(before));
				csr_in = (unsigned int)w[128];
				csr_out = csr_in;
			}
			memcpy(after, before, sizeof(after));
			while (mcount_return_fn && *sl == mcount_return_fn && mtd.idx > 0 && n < 100000) {
				clobber_xmm = 1 + level;
				errno = 55;
				*sl = vec_call(level, before, after, (void *)mcount_exit, (long)rv, 0, 0);
				if (errno != 55)
					ok = 0;
				clobber_xmm = 0;
				n++;
			}
			printf("VR %d %d", level, n);
			pword(*sl);
			printf(" %d", ok);
			for (i = 0; i < 128; i++)
				printf(" %llx", (unsigned long long)after[i]);
			printf(" %x", csr_out);
		}
		else if (!strcmp(op, "VEC")) {
			static __thread uint64_t before[128], clobber[128], after[128];
			static uint64_t ctx[256] __attribute__((aligned(64)));
			char *p = line + 3;
			int i, level = vec_level();
			for (i = 0; i < 256; i++) {
				uint64_t w = strtoull(p, &p, 16);
				if (i < 128)
					before[i] = w;
				else
					clobber[i - 128] = w;
			}
			memset(ctx, 0, sizeof(ctx));
			vec_roundtrip(level, before, clobber, after, ctx);
			printf("VEC %d", level);
			for (i = 0; i < 128; i++)
				printf(" %llx", (unsigned long long)after[i]);
		}
		else if (!strcmp(op, "XMM")) {
			uint64_t before[32], clobber[32], after[32];
			static uint64_t ctx[64] __attribute__((aligned(16)));
			char *p = line + 3;
			int i;
			for (i = 0; i < 64; i++) {
				uint64_t w = strtoull(p, &p, 16);
				if (i < 32)
					before[i] = w;
				else
					clobber[i - 32] = w;
			}
			memset(ctx, 0, sizeof(ctx));
			memset(after, 0xee, sizeof(after));
			xmm_roundtrip(before, clobber, after, ctx);
			printf("XMM");
			for (i = 0; i < 32; i++)
				printf(" %llx", (unsigned long long)after[i]);
		}
		else {
			printf("? %s", op);
		}
		snap();
	}
}

/* worker threads: `T <n>` makes thread n (0 = the initial thread) execute the following operations */
#include <pthread.h>
#define NTHREAD 4
static struct worker {
	pthread_t th;
	pthread_mutex_t mu;
	pthread_cond_t cv;
	char *line;
	int done, alive;
} workers[NTHREAD];

static void *worker_main(void *arg)
{
	struct worker *w = arg;
	pthread_mutex_lock(&w->mu);
	for (;;) {
		while (!w->line)
			pthread_cond_wait(&w->cv, &w->mu);
		do_op(w->line);
		w->line = NULL;
		w->done = 1;
		pthread_cond_broadcast(&w->cv);
	}
	return NULL;
}

static void dispatch(int n, char *line)
{
	struct worker *w = &workers[n % NTHREAD];
	if (n == 0) {
		do_op(line);
		return;
	}
	if (!w->alive) {
		pthread_mutex_init(&w->mu, NULL);
		pthread_cond_init(&w->cv, NULL);
		w->alive = 1;
		pthread_create(&w->th, NULL, worker_main, w);
	}
	pthread_mutex_lock(&w->mu);
	w->done = 0;
	w->line = line;
	pthread_cond_broadcast(&w->cv);
	while (!w->done)
		pthread_cond_wait(&w->cv, &w->mu);
	pthread_mutex_unlock(&w->mu);
}

int main(int argc, char **argv)
{
	static char line[1 << 16];
	int cur = 0;

	if (argc > 1)
		nshow = atoi(argv[1]);
	if (nshow > NSLOT)
		nshow = NSLOT;
	if (argc > 2 && !strcmp(argv[2], "rev"))
		reversed = 1;
	setvbuf(stdout, NULL, _IOFBF, 1 << 16);
#ifdef C01_WITH_PLT
	setup_fake_module();
#endif
	fake_on = 1;
	while (fgets(line, sizeof line, stdin)) {
		char op[8] = "";

		if (line[0] == '#' || line[0] == '\n')
			continue;
		sscanf(line, "%7s", op);
		if (!strcmp(op, "QUIT"))
			break;
		if (!strcmp(op, "T")) {
			cur = atoi(line + 2);
			continue;
		}
		dispatch(cur, line);
	}
	fflush(stdout);
	_exit(0); /* skip libmcount's destructor */
}
