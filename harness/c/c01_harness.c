/*
 * c01_harness - drives the return-address hijack of the REAL libmcount (object files of the scratch
 * build of /repo's current tree, linked statically) on numbered fake return-address slots, and the
 * real mcount_save_arch_context/mcount_restore_arch_context pair on chosen xmm contents.
 *
 * One operation per line on stdin; one result line per operation on stdout, each followed by
 * " | <mtd.idx> <slot0> <slot1> ... " where slot0 is mtd.cygprof_dummy:
 *
 *   P <s> <v>        a `call` stores return address id v into slot s                -> "P"
 *   E <k> <s>        mcount_entry(&slot[s], f<k>+4, regs)                           -> "E <ret> <errno_ok>"
 *   N                nothing (an entry that is not instrumented)                    -> "N"
 *   STOP             tracing is being finished (as by a `finish` trigger in another thread): sets
 *                    MCOUNT_GFL_FINISH; the next exit hook tears the thread's shadow stack down    -> "STOP"
 *   Z                next case: clear all slots and the dummy slot (mtd.idx must be 0)  -> "Z"
 *   PE <k> <s>       plthook_entry(&slot[s], k, module, regs) on a fake module whose PLT symbol k is f<k>
 *                    (only in the build with -DC01_WITH_PLT)                        -> "PE <ret!=0> <errno_ok>"
 *   CE <k> <p>       __cyg_profile_func_enter(f<k>, (void *)p)                      -> "CE <errno_ok>"
 *   CX <k> <p>       __cyg_profile_func_exit(f<k>, (void *)p)                       -> "CX <errno_ok>"
 *   R <s>            return through slot s: while it holds mcount_return_fn / plthook_return run
 *                    mcount_exit / plthook_exit and store what it hands back (as the trampolines
 *                    do)                                                            -> "R <exits> <word> <errno_ok>"
 *   XE <k> <s> <32 hex words>   like E, but with xmm0..15 loaded from the words when the hook is called and
 *                    every xmm register overwritten by a libc function the hook reaches (the
 *                    interposed clock_gettime)                      -> "XE <ret> <errno_ok> <32 hex words after>"
 *   XR <s> <32 hex words>       like R, the same way around every exit hook  -> "XR <exits> <word> <errno_ok> <32 words>"
 *   YMM <128 hex words> ymm0..15 before (4 words each, low first), then the clobber values; runs
 *                    save; clobber; restore on the 256-bit registers if the CPU has AVX, else on the xmm
 *                    registers (upper words then echo the clobber)              -> "YMM <avx> <64 hex words>"
 *   XMM <64 hex words>  xmm0..15 before (lo hi ...), then the clobber values; runs
 *                    save; clobber; restore                                         -> "XMM <32 hex words>"
 *   QUIT
 *
 * Words print as r<n> (a return-address id), T (mcount_return_fn), PT (plthook_return), x<hex>.
 * The fake clock overwrites errno on every call, so a hook that forgets to restore errno shows.
 */
#ifdef C01_WITH_PLT
/* the PLT hook's bookkeeping (plthook_modules) is static: take the source of /repo's current tree in
 * (the harness is then linked without plthook.op) */
#include "libmcount/plthook.c"
#undef PR_FMT
#undef PR_DOMAIN
#endif
#define _GNU_SOURCE
#include <stdio.h>
#include <stdlib.h>
#include <string.h>
#include <stdint.h>
#include <time.h>
#include <errno.h>
#include <unistd.h>
#include <sys/resource.h>

#include "uftrace.h"
#include "libmcount/mcount.h"
#include "libmcount/internal.h"
#include "mcount-arch.h"

static volatile uint64_t fake_now = 1000;
static volatile int fake_on;
static volatile int clobber_xmm;

int clock_gettime(clockid_t id, struct timespec *ts)
{
	extern int __clock_gettime(clockid_t, struct timespec *);
	if (!fake_on)
		return __clock_gettime(id, ts);
	fake_now += 100;
	ts->tv_sec = fake_now / 1000000000ULL;
	ts->tv_nsec = fake_now % 1000000000ULL;
	errno = 4242; /* something inside the hook disturbs errno */
	if (clobber_xmm) /* ... and, like libc code does, every xmm register */
		asm volatile("pcmpeqd %%xmm0, %%xmm0\n pcmpeqd %%xmm1, %%xmm1\n pcmpeqd %%xmm2, %%xmm2\n"
			     "pcmpeqd %%xmm3, %%xmm3\n pcmpeqd %%xmm4, %%xmm4\n pcmpeqd %%xmm5, %%xmm5\n"
			     "pcmpeqd %%xmm6, %%xmm6\n pcmpeqd %%xmm7, %%xmm7\n pcmpeqd %%xmm8, %%xmm8\n"
			     "pcmpeqd %%xmm9, %%xmm9\n pcmpeqd %%xmm10, %%xmm10\n pcmpeqd %%xmm11, %%xmm11\n"
			     "pcmpeqd %%xmm12, %%xmm12\n pcmpeqd %%xmm13, %%xmm13\n pcmpeqd %%xmm14, %%xmm14\n"
			     "pcmpeqd %%xmm15, %%xmm15\n" ::
				     : "xmm0", "xmm1", "xmm2", "xmm3", "xmm4", "xmm5", "xmm6", "xmm7", "xmm8",
				       "xmm9", "xmm10", "xmm11", "xmm12", "xmm13", "xmm14", "xmm15");
	return 0;
}

#define FDEF(n, fill)                                                                              \
	asm(".text\n .globl f" #n "\n .type f" #n ",@function\n .p2align 8\n f" #n ":\n .fill " #fill \
	    ",1,0x90\n ret\n .size f" #n ", .-f" #n "\n");                                            \
	extern void f##n(void);
FDEF(0, 16) FDEF(1, 24) FDEF(2, 32) FDEF(3, 40) FDEF(4, 48) FDEF(5, 56) FDEF(6, 64) FDEF(7, 72)
FDEF(8, 16) FDEF(9, 24) FDEF(10, 32) FDEF(11, 40) FDEF(12, 48) FDEF(13, 56) FDEF(14, 64) FDEF(15, 72)
static void (*const funcs[])(void) = { f0, f1, f2,  f3,  f4,  f5,  f6,  f7,
				       f8, f9, f10, f11, f12, f13, f14, f15 };
#define NFUNC 16

extern int mcount_entry(unsigned long *parent_loc, unsigned long child, struct mcount_regs *regs);
extern unsigned long mcount_exit(long *retval);
extern void __cyg_profile_func_enter(void *child, void *parent);
extern void __cyg_profile_func_exit(void *child, void *parent);
extern unsigned long mcount_return_fn;
extern TLS struct mcount_thread_data mtd;
extern void mcount_save_arch_context(struct mcount_arch_context *ctx);
extern void mcount_restore_arch_context(struct mcount_arch_context *ctx);

#ifdef C01_WITH_PLT
#define FAKE_MODULE_ID 0x5eed0001UL
static struct uftrace_symbol fake_syms[NFUNC];
static unsigned long fake_resolved[NFUNC];
static unsigned long fake_got[NFUNC + 8];
static struct plthook_arch_context fake_arch;
static struct plthook_data fake_pd;
static char fake_names[NFUNC][8];

static void setup_fake_module(void)
{
	int i;
	for (i = 0; i < NFUNC; i++) {
		snprintf(fake_names[i], sizeof(fake_names[i]), "f%d", i);
		fake_syms[i].addr = (unsigned long)funcs[i];
		fake_syms[i].size = 16;
		fake_syms[i].type = ST_PLT_FUNC;
		fake_syms[i].name = fake_names[i];
		fake_resolved[i] = (unsigned long)funcs[i]; /* already resolved: the GOT is left alone */
	}
	fake_pd.mod_name = "c01-fake-module";
	fake_pd.module_id = FAKE_MODULE_ID;
	fake_pd.dsymtab.sym = fake_syms;
	fake_pd.dsymtab.nr_sym = NFUNC;
	fake_pd.pltgot_ptr = fake_got;
	fake_pd.resolved_addr = fake_resolved;
	fake_pd.special_funcs = NULL;
	fake_pd.nr_special = 0;
	fake_pd.arch = &fake_arch;
	list_add_tail(&fake_pd.list, &plthook_modules);
}
#endif

#define NSLOT 48
static unsigned long slots[NSLOT];
static int nshow = 16;

/* xmm0..15 := before; save(ctx); xmm0..15 := clobber; restore(ctx); after := xmm0..15 */
void xmm_roundtrip(const uint64_t *before, const uint64_t *clobber, uint64_t *after, void *ctx);
#define X16(op, base)                                                                              \
	op(0, base) op(1, base) op(2, base) op(3, base) op(4, base) op(5, base) op(6, base)        \
		op(7, base) op(8, base) op(9, base) op(10, base) op(11, base) op(12, base)         \
			op(13, base) op(14, base) op(15, base)
#define LD(i, base) " movdqu " #i "*16(%" base "), %xmm" #i "\n"
#define ST(i, base) " movdqu %xmm" #i ", " #i "*16(%" base ")\n"
asm(".text\n .globl xmm_roundtrip\n .type xmm_roundtrip,@function\n xmm_roundtrip:\n"
    " push %rbx\n push %r12\n push %r13\n push %r14\n push %rbp\n"
    " mov %rdi, %rbx\n mov %rsi, %r12\n mov %rdx, %r13\n mov %rcx, %r14\n"
    X16(LD, "rbx")
    " mov %r14, %rdi\n call mcount_save_arch_context\n"
    X16(LD, "r12")
    " mov %r14, %rdi\n call mcount_restore_arch_context\n"
    X16(ST, "r13")
    " pop %rbp\n pop %r14\n pop %r13\n pop %r12\n pop %rbx\n ret\n"
    " .size xmm_roundtrip, .-xmm_roundtrip\n");

/* the same with the 256-bit registers (only called when the CPU has AVX) */
void ymm_roundtrip(const uint64_t *before, const uint64_t *clobber, uint64_t *after, void *ctx);
#define LDY(i, base) " vmovdqu " #i "*32(%" base "), %ymm" #i "\n"
#define STY(i, base) " vmovdqu %ymm" #i ", " #i "*32(%" base ")\n"
asm(".text\n .globl ymm_roundtrip\n .type ymm_roundtrip,@function\n ymm_roundtrip:\n"
    " push %rbx\n push %r12\n push %r13\n push %r14\n push %rbp\n"
    " mov %rdi, %rbx\n mov %rsi, %r12\n mov %rdx, %r13\n mov %rcx, %r14\n"
    X16(LDY, "rbx")
    " mov %r14, %rdi\n call mcount_save_arch_context\n"
    X16(LDY, "r12")
    " mov %r14, %rdi\n call mcount_restore_arch_context\n"
    X16(STY, "r13")
    " vzeroupper\n"
    " pop %rbp\n pop %r14\n pop %r13\n pop %r12\n pop %rbx\n ret\n"
    " .size ymm_roundtrip, .-ymm_roundtrip\n");

/* after := xmm0..15 after calling fn(a1, a2, a3) with xmm0..15 = before; returns fn's result */
unsigned long call_with_xmm(const uint64_t *before, uint64_t *after, void *fn, long a1, long a2, long a3);
asm(".text\n .globl call_with_xmm\n .type call_with_xmm,@function\n call_with_xmm:\n"
    " push %rbx\n push %r12\n push %r13\n push %r14\n push %rbp\n"
    " mov %rdi, %rbx\n mov %rsi, %r12\n mov %rdx, %r13\n"
    " mov %rcx, %rdi\n mov %r8, %rsi\n mov %r9, %rdx\n"
    X16(LD, "rbx")
    " call *%r13\n"
    X16(ST, "r12")
    " pop %rbp\n pop %r14\n pop %r13\n pop %r12\n pop %rbx\n ret\n"
    " .size call_with_xmm, .-call_with_xmm\n");

static void read_words(char *p, uint64_t *w, int n)
{
	int i;
	for (i = 0; i < n; i++)
		w[i] = strtoull(p, &p, 16);
}

static void pword(unsigned long v)
{
	if (v == mcount_return_fn && v != 0)
		printf(" T");
	else if (v == (unsigned long)plthook_return)
		printf(" PT");
	else if (v < 1000000)
		printf(" r%lu", v);
	else
		printf(" x%lx", v);
}

static void snap(void)
{
	int i;
	printf(" | %d", mtd.idx);
	pword(mtd.cygprof_dummy);
	for (i = 1; i < nshow; i++)
		pword(slots[i]);
	printf("\n");
}

int main(int argc, char **argv)
{
	static char line[1 << 15];

	if (argc > 1)
		nshow = atoi(argv[1]);
	if (nshow > NSLOT)
		nshow = NSLOT;
	setvbuf(stdout, NULL, _IOFBF, 1 << 16);
#ifdef C01_WITH_PLT
	setup_fake_module();
#endif
	fake_on = 1;
	while (fgets(line, sizeof line, stdin)) {
		char op[8] = "";
		int k = 0;
		unsigned long s = 0, v = 0;

		if (line[0] == '#' || line[0] == '\n')
			continue;
		sscanf(line, "%7s", op);
		if (!strcmp(op, "QUIT"))
			break;
		if (!strcmp(op, "P")) {
			sscanf(line, "%*s %lu %lu", &s, &v);
			slots[s % NSLOT] = v;
			printf("P");
		}
		else if (!strcmp(op, "N")) {
			printf("N");
		}
		else if (!strcmp(op, "STOP")) {
			mcount_global_flags |= MCOUNT_GFL_FINISH;
			printf("STOP");
		}
		else if (!strcmp(op, "Z")) {
			memset(slots, 0, sizeof(slots));
			mtd.cygprof_dummy = 0;
			printf("Z");
		}
		else if (!strcmp(op, "E")) {
			struct mcount_regs regs;
			int r;
			sscanf(line, "%*s %d %lu", &k, &s);
			memset(&regs, 0, sizeof(regs));
			errno = 77;
			r = mcount_entry(&slots[s % NSLOT], (unsigned long)funcs[k % NFUNC] + 4, &regs);
			printf("E %d %d", r, errno == 77);
		}
#ifdef C01_WITH_PLT
		else if (!strcmp(op, "PE")) {
			struct mcount_regs regs;
			unsigned long r;
			sscanf(line, "%*s %d %lu", &k, &s);
			memset(&regs, 0, sizeof(regs));
			errno = 88;
			r = plthook_entry(&slots[s % NSLOT], (unsigned long)(k % NFUNC), FAKE_MODULE_ID, &regs);
			printf("PE %d %d", r != 0, errno == 88);
		}
#endif
		else if (!strcmp(op, "CE") || !strcmp(op, "CX")) {
			sscanf(line, "%*s %d %lu", &k, &v);
			errno = 66;
			if (op[1] == 'E')
				__cyg_profile_func_enter((void *)funcs[k % NFUNC], (void *)v);
			else
				__cyg_profile_func_exit((void *)funcs[k % NFUNC], (void *)v);
			printf("%s %d", op, errno == 66);
		}
		else if (!strcmp(op, "R")) {
			long rv[4] = { 42, 43, 0, 0 };
			int n = 0, ok = 1;
			sscanf(line, "%*s %lu", &s);
			s %= NSLOT;
			while (n < 100000) {
				int is_m = mcount_return_fn && slots[s] == mcount_return_fn;
				int is_p = slots[s] == (unsigned long)plthook_return;
				if (!is_m && !is_p)
					break;
				if (mtd.idx <= 0)
					break; /* the exit hook would assert: report the trampoline as target */
				errno = 55;
#ifdef C01_WITH_PLT
				if (is_p)
					slots[s] = plthook_exit(rv);
				else
#endif
					slots[s] = mcount_exit(rv);
				if (errno != 55)
					ok = 0;
				n++;
			}
			printf("R %d", n);
			pword(slots[s]);
			printf(" %d", ok);
		}
		else if (!strcmp(op, "XE")) {
			struct mcount_regs regs;
			uint64_t before[32], after[32];
			char *p = line;
			int r, i, e;
			strtok(p, " ");
			k = atoi(strtok(NULL, " "));
			s = strtoul(strtok(NULL, " "), NULL, 10);
			read_words(strtok(NULL, "\n"), before, 32);
			memset(&regs, 0, sizeof(regs));
			memset(after, 0xee, sizeof(after));
			clobber_xmm = 1;
			errno = 77;
			r = (int)call_with_xmm(before, after, (void *)mcount_entry, (long)&slots[s % NSLOT],
					       (long)funcs[k % NFUNC] + 4, (long)&regs);
			e = errno;
			clobber_xmm = 0;
			printf("XE %d %d", r, e == 77);
			for (i = 0; i < 32; i++)
				printf(" %llx", (unsigned long long)after[i]);
		}
		else if (!strcmp(op, "XR")) {
			long rv[4] = { 42, 43, 0, 0 };
			uint64_t before[32], after[32];
			int n = 0, ok = 1, i;
			strtok(line, " ");
			s = strtoul(strtok(NULL, " "), NULL, 10) % NSLOT;
			read_words(strtok(NULL, "\n"), before, 32);
			memcpy(after, before, sizeof(after));
			while (mcount_return_fn && slots[s] == mcount_return_fn && mtd.idx > 0 && n < 100000) {
				clobber_xmm = 1;
				errno = 55;
				slots[s] = call_with_xmm(before, after, (void *)mcount_exit, (long)rv, 0, 0);
				if (errno != 55)
					ok = 0;
				clobber_xmm = 0;
				n++;
			}
			printf("XR %d", n);
			pword(slots[s]);
			printf(" %d", ok);
			for (i = 0; i < 32; i++)
				printf(" %llx", (unsigned long long)after[i]);
		}
		else if (!strcmp(op, "YMM")) {
			static uint64_t before[64], clobber[64], after[64];
			static uint64_t ctx[128] __attribute__((aligned(32)));
			char *p = line + 3;
			int i, avx = __builtin_cpu_supports("avx");
			for (i = 0; i < 128; i++) {
				uint64_t w = strtoull(p, &p, 16);
				if (i < 64)
					before[i] = w;
				else
					clobber[i - 64] = w;
			}
			memset(ctx, 0, sizeof(ctx));
			memset(after, 0xee, sizeof(after));
			if (avx)
				ymm_roundtrip(before, clobber, after, ctx);
			else {
				uint64_t b[32], c[32], a[32];
				for (i = 0; i < 16; i++) {
					b[2 * i] = before[4 * i], b[2 * i + 1] = before[4 * i + 1];
					c[2 * i] = clobber[4 * i], c[2 * i + 1] = clobber[4 * i + 1];
				}
				xmm_roundtrip(b, c, a, ctx);
				for (i = 0; i < 16; i++) {
					after[4 * i] = a[2 * i], after[4 * i + 1] = a[2 * i + 1];
					after[4 * i + 2] = clobber[4 * i + 2], after[4 * i + 3] = clobber[4 * i + 3];
				}
			}
			printf("YMM %d", avx ? 1 : 0);
			for (i = 0; i < 64; i++)
				printf(" %llx", (unsigned long long)after[i]);
		}
		else if (!strcmp(op, "XMM")) {
			uint64_t before[32], clobber[32], after[32];
			static uint64_t ctx[64] __attribute__((aligned(16)));
			char *p = line + 3;
			int i;
			for (i = 0; i < 64; i++) {
				uint64_t w = strtoull(p, &p, 16);
				if (i < 32)
					before[i] = w;
				else
					clobber[i - 32] = w;
			}
			memset(ctx, 0, sizeof(ctx));
			memset(after, 0xee, sizeof(after));
			xmm_roundtrip(before, clobber, after, ctx);
			printf("XMM");
			for (i = 0; i < 32; i++)
				printf(" %llx", (unsigned long long)after[i]);
		}
		else {
			printf("? %s", op);
		}
		snap();
	}
	fflush(stdout);
	_exit(0); /* skip libmcount's destructor */
}
