/* C16 harness: shared declarations of c16_send.c (includes cmds/record.c) and
 * c16_recv.c (includes cmds/recv.c, holds main() and the interposed system calls). */
#ifndef C16_COMMON_H
#define C16_COMMON_H

#include <stddef.h>
#include <stdint.h>
#include <sys/syscall.h>

enum c16_opkind {
	OP_DIR, OP_DATA, OP_BIGDATA, OP_KERNEL, OP_PERF, OP_META, OP_INFO,
	OP_TASKFILE, OP_MAPFILES, OP_SYMFILES, OP_DBGFILES, OP_END, OP_SLEEP, OP_RAW, OP_ABORT, OP_POST, OP_WAIT, OP_TDATA,
};

struct c16_op {
	enum c16_opkind kind;
	long num; /* tid / cpu / usec */
	int thread; /* OP_TDATA: index of the writer thread that sends this buffer */
	size_t len; /* bigdata */
	uint64_t seed;
	char *arg; /* hex */
};

#define C16_MAXSCHED 4096
struct c16_sched {
	int n, pos;
	long calls;
	int v[C16_MAXSCHED];
};

struct c16_client {
	int idx;
	int after; /* >= 0: the server accepts this connection only when client `after` has been closed, on the SAME
		      descriptor number (accept() returns the lowest free one); -1: connected from the start */
	char *localdir;
	char *capfile;
	struct c16_sched wsched; /* socket write()/writev(): -1 = EINTR, k >= 0: at most k bytes */
	struct c16_sched lsched; /* local-file write(): same encoding */
	int nops;
	struct c16_op *ops;
};

int c16_client(struct c16_client *c, int sock);

#endif
