/*
 * c14_harness - drives the REAL dynamic-patching code of /repo's current tree:
 *   libmcount/dynamic.c is #included (its statics parse_pattern_list, match_pattern_list,
 *   patch_func_matched, min_size, stats, code_pages become callable) and the architecture part
 *   (mcount_setup_trampoline, mcount_cleanup_trampoline, mcount_patch_func -> patch_fentry_code,
 *   mcount_unpatch_func) comes from the scratch build's arch/x86_64/mcount-entry.op.
 *
 * One command per line on stdin (strings are hex, "-" = empty / NULL):
 *
 *  PAT <ptype> <patch_funcs> <def_mod>
 *        release_pattern_list(); parse_pattern_list()          -> "P <n>" then n lines
 *        "I <type> <positive> <patt> <module> <exact_module>"
 *  Q <libname> <soname|-> <symname>
 *        match_pattern_list() on the current list               -> "Q <ret> <bits>" where bit i is
 *        the real match_filter_pattern(item i, symname)
 *  UPD <type> <min_size> <npages> <perms> <text_addr> <text_size> <wbase> <window> <libname>
 *      <nsym> {<addr> <size> <type> <name>}* <ntarget> {<addr>}* <ncode> <codesz>
 *        (in a forked child) builds a fake module in an anonymous region of <npages> pages whose
 *        initial permissions are <perms> (one letter per page: x = r-x, w = rw-, r = r--,
 *        n = ---, u = unmapped, a = rwx), all addresses relative to the region start
 *        (= map->start), fills the window, then runs
 *          mcount_setup_trampoline; patch_func_matched; <ncode> x mcount_save_code;
 *          mcount_cleanup_trampoline; mcount_freeze_code
 *        and prints
 *          "S <rc> <trampoline> <text_size>"   "M0|M1|M2 <perms>" (before / after setup / at the end)
 *          "T <16 trampoline bytes> <target - &__fentry__>"  "ST total failed skipped nomatch"
 *          "W <window>"  "C <bytes changed outside window and trampoline>"
 *          "CP <n> <perms before freeze> <perms after freeze>"   "END"
 *        or "FATAL <status>" when the child exits (pr_err) or dies.
 *  MOD <pathname>
 *        match_pattern_module() on the current list        -> "MO <0|1> <get_soname(pathname)|->"
 *  FIND <elf path> <wbase> <window> <nsym> {<addr> <size> <type> <name>}*
 *        (in a forked child) mcount_arch_find_module() for a module whose file is <elf path> (a real
 *        ELF without patchable/xray sections), whose code is the window and whose symbol table is the
 *        given one                                   -> "FT <mdi->type> <check_trace_functions()>"
 *  RPL <elf path> <dyn 0|1> <sh_addr> <first_vaddr> <n> {<file address of location>}*
 *        (in a forked child) the module is the real ELF <elf path> (it has a __patchable_function_entries
 *        section of n entries at file address sh_addr); it is "loaded" with some load bias (ET_EXEC: 0),
 *        i.e. the n relocated entries (location + bias) are put at sh_addr + bias, base_addr = map->start
 *        = first_vaddr + bias; then mcount_arch_find_module() -> read_patchable_loc()
 *                                                  -> "RP <mdi->type> <nr_patch_target> <targets...>"
 *  QUIT
 */
#include "libmcount/dynamic.c"

#include <stdio.h>
#include <stdlib.h>
#include <string.h>
#include <stdint.h>
#include <unistd.h>
#include <sys/mman.h>
#include <sys/wait.h>

#define PG 4096UL

static int unhex(const char *s, unsigned char *out, int max)
{
	int n = 0;
	if (!strcmp(s, "-"))
		return 0;
	while (s[0] && s[1] && n < max) {
		unsigned v;
		sscanf(s, "%2x", &v);
		out[n++] = v;
		s += 2;
	}
	return n;
}

static char *unhex_str(const char *s)
{
	static unsigned char buf[8192];
	int n = unhex(s, buf, sizeof(buf) - 1);
	buf[n] = 0;
	return strdup((char *)buf);
}

static void puthex(const unsigned char *p, size_t n)
{
	size_t i;
	if (n == 0)
		printf("-");
	for (i = 0; i < n; i++)
		printf("%02x", p[i]);
}

/* permission letter of the page at addr, from /proc/self/maps */
static char page_perm(unsigned long addr)
{
	FILE *f = fopen("/proc/self/maps", "r");
	char line[512];
	char ret = 'u';
	while (f && fgets(line, sizeof line, f)) {
		unsigned long s, e;
		char p[8];
		if (sscanf(line, "%lx-%lx %7s", &s, &e, p) != 3)
			continue;
		if (s <= addr && addr < e) {
			if (p[0] == 'r' && p[1] == 'w' && p[2] == 'x')
				ret = 'a';
			else if (p[0] == 'r' && p[1] == '-' && p[2] == 'x')
				ret = 'x';
			else if (p[0] == 'r' && p[1] == 'w')
				ret = 'w';
			else if (p[0] == 'r')
				ret = 'r';
			else if (p[0] == '-' && p[1] == '-' && p[2] == '-')
				ret = 'n';
			else
				ret = '?';
			break;
		}
	}
	if (f)
		fclose(f);
	return ret;
}

static void print_perms(const char *tag, unsigned long base, int npages)
{
	int i;
	printf("%s ", tag);
	for (i = 0; i < npages; i++)
		putchar(page_perm(base + i * PG));
	printf("\n");
}

static int prot_of(char c)
{
	switch (c) {
	case 'x': return PROT_READ | PROT_EXEC;
	case 'w': return PROT_READ | PROT_WRITE;
	case 'r': return PROT_READ;
	case 'a': return PROT_READ | PROT_WRITE | PROT_EXEC;
	default: return PROT_NONE;
	}
}

static char *next_tok(void)
{
	char *t = strtok(NULL, " \n");
	if (t == NULL) {
		printf("ERR missing token\n");
		fflush(stdout);
		exit(3);
	}
	return t;
}

static void do_pat(void)
{
	int ptype = atoi(next_tok());
	char *funcs = unhex_str(next_tok());
	char *defmod = unhex_str(next_tok());
	struct patt_list *pl;
	int n = 0;

	release_pattern_list();
	parse_pattern_list(funcs, defmod, ptype);
	list_for_each_entry(pl, &patterns, list)
		n++;
	printf("P %d\n", n);
	list_for_each_entry(pl, &patterns, list) {
		printf("I %d %d ", pl->patt.type, pl->positive);
		puthex((unsigned char *)pl->patt.patt, strlen(pl->patt.patt));
		printf(" ");
		puthex((unsigned char *)pl->module, strlen(pl->module));
		printf(" %d\n", pl->exact_module);
	}
	free(funcs);
	free(defmod);
}

static struct uftrace_mmap *make_map(const char *libname)
{
	struct uftrace_mmap *map = xzalloc(sizeof(*map) + strlen(libname) + 1);
	strcpy(map->libname, libname);
	map->len = strlen(libname);
	return map;
}

static void do_query(void)
{
	char *lib = unhex_str(next_tok());
	char *so_tok = next_tok();
	char *so = strcmp(so_tok, "-") ? unhex_str(so_tok) : NULL;
	char *name = unhex_str(next_tok());
	struct uftrace_mmap *map = make_map(lib);
	struct patt_list *pl;
	int ret = match_pattern_list(map, so, name);

	printf("Q %d ", ret);
	if (list_empty(&patterns))
		printf("-");
	list_for_each_entry(pl, &patterns, list)
		putchar(match_filter_pattern(&pl->patt, name) ? '1' : '0');
	printf("\n");
	free(map);
	free(lib);
	free(so);
	free(name);
}

static void do_mod(void)
{
	char *path = unhex_str(next_tok());
	char *so = get_soname(path);

	printf("MO %d ", match_pattern_module(path));
	if (so)
		puthex((unsigned char *)so, strlen(so));
	else
		printf("-");
	printf("\n");
	free(so);
	free(path);
}

static void upd_child(void)
{
	int type = atoi(next_tok());
	unsigned long minsz = strtoul(next_tok(), NULL, 0);
	int npages = atoi(next_tok());
	char *perms = strdup(next_tok());
	long text_addr = strtol(next_tok(), NULL, 0);
	long text_size = strtol(next_tok(), NULL, 0);
	unsigned long wbase = strtoul(next_tok(), NULL, 0);
	static unsigned char win[65536], before[65536];
	int wlen = unhex(next_tok(), win, sizeof win);
	char *libname = unhex_str(next_tok());
	int nsym = atoi(next_tok());
	struct uftrace_symbol *syms = xcalloc(nsym + 1, sizeof(*syms));
	struct uftrace_module *mod;
	struct uftrace_mmap *map;
	struct mcount_dynamic_info *mdi;
	unsigned long *targets;
	unsigned char *region, *snap;
	unsigned long tramp;
	int i, ntarget, ncode, codesz, rc, changed = 0;
	struct code_page *cp;
	char cpb[256], cpa[256];
	int ncp = 0;

	for (i = 0; i < nsym; i++) {
		syms[i].addr = strtoul(next_tok(), NULL, 0);
		syms[i].size = strtoul(next_tok(), NULL, 0);
		syms[i].type = atoi(next_tok());
		syms[i].name = unhex_str(next_tok());
	}
	ntarget = atoi(next_tok());
	targets = xcalloc(ntarget + 1, sizeof(*targets));
	for (i = 0; i < ntarget; i++)
		targets[i] = strtoul(next_tok(), NULL, 0);
	ncode = atoi(next_tok());
	codesz = atoi(next_tok());

	/* the region: one extra guard page on both sides stays PROT_NONE-free (unmapped) */
	region = mmap(NULL, (npages + 2) * PG, PROT_READ | PROT_WRITE, MAP_PRIVATE | MAP_ANONYMOUS, -1, 0);
	if (region == MAP_FAILED) {
		printf("ERR mmap\n");
		exit(3);
	}
	munmap(region, PG);
	munmap(region + (npages + 1) * PG, PG);
	region += PG;
	memset(region, 0xcc, npages * PG);
	memcpy(region + wbase, win, wlen);
	snap = malloc(npages * PG);
	memcpy(snap, region, npages * PG);
	for (i = 0; i < npages; i++) {
		if (perms[i] == 'u')
			munmap(region + i * PG, PG);
		else
			mprotect(region + i * PG, PG, prot_of(perms[i]));
	}

	mod = xzalloc(sizeof(*mod) + 16);
	strcpy(mod->name, "mod");
	mod->symtab.sym = syms;
	mod->symtab.nr_sym = nsym;
	map = make_map(libname);
	map->start = (unsigned long)region;
	map->end = map->start + npages * PG;
	map->mod = mod;

	mdi = xzalloc(sizeof(*mdi));
	mdi->map = map;
	mdi->base_addr = map->start;
	mdi->text_addr = map->start + text_addr;
	mdi->text_size = text_size;
	mdi->type = type;
	mdi->patch_target = targets;
	mdi->nr_patch_target = ntarget;
	INIT_LIST_HEAD(&mdi->bad_syms);

	code_hmap = hashmap_create(64, hashmap_ptr_hash, hashmap_ptr_equals);
	min_size = minsz;
	memset(&stats, 0, sizeof(stats));

	print_perms("M0", map->start, npages);
	fflush(stdout);
	rc = mcount_setup_trampoline(mdi);
	tramp = mdi->trampoline;
	printf("S %d %ld %d\n", rc, (long)(tramp - map->start), mdi->text_size);
	print_perms("M1", map->start, npages);
	fflush(stdout);
	if (rc == 0) {
		unsigned long target;
		patch_func_matched(mdi, map);
		memcpy(&target, (void *)(tramp + 8), 8);
		printf("T ");
		puthex((void *)tramp, 8);
		printf(" %ld\n", (long)(target - (unsigned long)__fentry__));
	}
	else {
		printf("T - 0\n");
	}
	for (i = 0; i < ncode; i++) {
		struct mcount_disasm_info info = { .addr = 0x1000 + 64 * i, .orig_size = 8, .copy_size = codesz, };
		uint8_t jmp[16] = { 0xcc };
		if (codesz > (int)sizeof(info.insns))
			info.copy_size = sizeof(info.insns);
		mcount_save_code(&info, 0, jmp, 15);
	}
	list_for_each_entry(cp, &code_pages, list) {
		if (ncp < 250)
			cpb[ncp++] = page_perm((unsigned long)cp->page);
	}
	cpb[ncp] = 0;

	mcount_cleanup_trampoline(mdi);
	mcount_freeze_code();

	print_perms("M2", map->start, npages);
	printf("ST %d %d %d %d\n", stats.total, stats.failed, stats.skipped, stats.nomatch);
	/* window after; needs the pages to be readable */
	{
		int ok = 1;
		for (i = wbase / PG; i <= (int)((wbase + wlen - 1) / PG) && i < npages; i++)
			if (page_perm(map->start + i * PG) == 'u' || page_perm(map->start + i * PG) == 'n')
				ok = 0;
		printf("W ");
		if (ok)
			puthex(region + wbase, wlen);
		else
			printf("unreadable");
		printf("\n");
	}
	for (i = 0; i < npages; i++) {
		unsigned long a, pa = map->start + i * PG;
		char p = page_perm(pa);
		if (p == 'u' || p == 'n' || perms[i] == 'u')
			continue;
		for (a = 0; a < PG; a++) {
			unsigned long off = i * PG + a;
			if (off >= wbase && off < wbase + wlen)
				continue;
			if (rc == 0 && pa + a >= tramp && pa + a < tramp + 16)
				continue;
			if (region[off] != snap[off])
				changed++;
		}
	}
	printf("C %d\n", changed);
	i = 0;
	list_for_each_entry(cp, &code_pages, list) {
		if (i < 250)
			cpa[i++] = page_perm((unsigned long)cp->page);
	}
	cpa[i] = 0;
	printf("CP %d %s %s\n", ncp, ncp ? cpb : "-", i ? cpa : "-");
	printf("END\n");
	fflush(stdout);
	_exit(0);
}

static void find_child(void)
{
	char *elf = unhex_str(next_tok());
	unsigned long wbase = strtoul(next_tok(), NULL, 0);
	static unsigned char win[65536];
	int wlen = unhex(next_tok(), win, sizeof win);
	int nsym = atoi(next_tok());
	struct uftrace_symbol *syms = xcalloc(nsym + 1, sizeof(*syms));
	struct uftrace_module *mod;
	struct uftrace_mmap *map;
	struct mcount_dynamic_info *mdi;
	unsigned char *region;
	int i, npages = (wbase + wlen + 64) / PG + 1;

	for (i = 0; i < nsym; i++) {
		syms[i].addr = strtoul(next_tok(), NULL, 0);
		syms[i].size = strtoul(next_tok(), NULL, 0);
		syms[i].type = atoi(next_tok());
		syms[i].name = unhex_str(next_tok());
	}
	region = mmap(NULL, npages * PG, PROT_READ | PROT_WRITE, MAP_PRIVATE | MAP_ANONYMOUS, -1, 0);
	if (region == MAP_FAILED) {
		printf("ERR mmap\n");
		exit(3);
	}
	memset(region, 0xcc, npages * PG);
	memcpy(region + wbase, win, wlen);
	mod = xzalloc(sizeof(*mod) + 16);
	strcpy(mod->name, "mod");
	mod->symtab.sym = syms;
	mod->symtab.nr_sym = nsym;
	map = make_map(elf);
	map->start = (unsigned long)region;
	map->end = map->start + npages * PG;
	map->mod = mod;
	mdi = xzalloc(sizeof(*mdi));
	mdi->map = map;
	mdi->base_addr = map->start;
	INIT_LIST_HEAD(&mdi->bad_syms);
	mcount_arch_find_module(mdi, &mod->symtab);
	printf("FT %d %d\n", mdi->type, check_trace_functions(elf));
	fflush(stdout);
	_exit(0);
}

static void rpl_child(void)
{
	char *elf = unhex_str(next_tok());
	int dyn = atoi(next_tok());
	unsigned long sh_addr = strtoul(next_tok(), NULL, 0);
	unsigned long first_vaddr = strtoul(next_tok(), NULL, 0);
	int n = atoi(next_tok());
	unsigned long locs[64], bias, *sect;
	struct uftrace_module *mod;
	struct uftrace_mmap *map;
	struct mcount_dynamic_info *mdi;
	unsigned char *region;
	unsigned i;

	for (i = 0; i < (unsigned)n && i < 64; i++)
		locs[i] = strtoul(next_tok(), NULL, 0);
	if (dyn) {
		region = mmap(NULL, 3 * PG, PROT_READ | PROT_WRITE, MAP_PRIVATE | MAP_ANONYMOUS, -1, 0);
		bias = (unsigned long)region - (sh_addr & ~(PG - 1));
	}
	else {
		region = mmap((void *)(sh_addr & ~(PG - 1)), 3 * PG, PROT_READ | PROT_WRITE,
			      MAP_PRIVATE | MAP_ANONYMOUS | MAP_FIXED_NOREPLACE, -1, 0);
		bias = 0;
		if (region != (void *)(sh_addr & ~(PG - 1)))
			region = MAP_FAILED;
	}
	if (region == MAP_FAILED) {
		printf("ERR mmap\n");
		exit(3);
	}
	sect = (unsigned long *)(sh_addr + bias);
	for (i = 0; i < (unsigned)n; i++)
		sect[i] = locs[i] + bias;
	mod = xzalloc(sizeof(*mod) + 16);
	strcpy(mod->name, "mod");
	map = make_map(elf);
	map->start = first_vaddr + bias;
	map->end = map->start + 16 * PG;
	map->mod = mod;
	mdi = xzalloc(sizeof(*mdi));
	mdi->map = map;
	mdi->base_addr = map->start;
	INIT_LIST_HEAD(&mdi->bad_syms);
	mcount_arch_find_module(mdi, &mod->symtab);
	printf("RP %d %u", mdi->type, mdi->nr_patch_target);
	for (i = 0; i < mdi->nr_patch_target && mdi->patch_target; i++)
		printf(" %ld", (long)((unsigned long *)mdi->patch_target)[i]);
	printf("\n");
	fflush(stdout);
	_exit(0);
}

int main(void)
{
	static char line[400000];

	setvbuf(stdout, NULL, _IOFBF, 1 << 16);
	while (fgets(line, sizeof line, stdin)) {
		char *cmd = strtok(line, " \n");
		if (cmd == NULL)
			continue;
		if (!strcmp(cmd, "QUIT"))
			break;
		if (!strcmp(cmd, "PAT"))
			do_pat();
		else if (!strcmp(cmd, "Q"))
			do_query();
		else if (!strcmp(cmd, "MOD"))
			do_mod();
		else if (!strcmp(cmd, "UPD") || !strcmp(cmd, "FIND") || !strcmp(cmd, "RPL")) {
			pid_t pid;
			int status = 0;
			fflush(stdout);
			pid = fork();
			if (pid == 0) {
				if (!strcmp(cmd, "FIND"))
					find_child();
				if (!strcmp(cmd, "RPL"))
					rpl_child();
				upd_child();
				_exit(0);
			}
			waitpid(pid, &status, 0);
			if (!(WIFEXITED(status) && WEXITSTATUS(status) == 0))
				printf("FATAL %d\n", WIFEXITED(status) ? WEXITSTATUS(status) : 1000 + WTERMSIG(status));
		}
		else
			printf("ERR unknown command %s\n", cmd);
		fflush(stdout);
	}
	return 0;
}
