/* C10 map-writer harness: runs the REAL record_proc_maps() of libmcount/record.c (object
 * files of libmcount.so of the scratch build, linked statically) on a fake /proc/self/maps:
 * the link uses -Wl,--wrap=fopen and the wrapper redirects exactly that path.
 * usage: c10_maps <fake-proc-maps> <dir> <sid> <exename>   -> writes <dir>/sid-<sid>.map,
 * prints the in-memory map list "start end prot libname" (what libmcount itself uses). */
#define _GNU_SOURCE
#include <inttypes.h>
#include <stdio.h>
#include <string.h>

#include "uftrace.h"
#include "utils/symbol.h"

static const char *fake;
FILE *__real_fopen(const char *path, const char *mode);
FILE *__wrap_fopen(const char *path, const char *mode)
{
	if (fake && !strcmp(path, "/proc/self/maps"))
		return __real_fopen(fake, mode);
	return __real_fopen(path, mode);
}

extern void record_proc_maps(char *dirname, const char *sess_id, struct uftrace_sym_info *sinfo);

int main(int argc, char **argv)
{
	struct uftrace_sym_info si = {};
	struct uftrace_mmap *m;

	if (argc < 5)
		return 2;
	fake = argv[1];
	si.dirname = argv[2];
	si.filename = argv[4];
	record_proc_maps(argv[2], argv[3], &si);
	fake = NULL;
	for (m = si.maps; m; m = m->next)
		printf("%" PRIu64 " %" PRIu64 " %.4s %s\n", m->start, m->end, m->prot, m->libname);
	printf("K %" PRIu64 "\n", si.kernel_base);
	fflush(stdout);
	return 0;
}
