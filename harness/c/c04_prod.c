/*
 * c04_prod - the tracee side of the C04 store-level tie: the REAL libmcount (object files of the
 * scratch build of /repo's current tree, linked statically) driven by a scripted call history with
 * a fake clock, run under ptrace by c04_rec (which is the recorder).
 *
 * usage: c04_prod <script>          (environment: UFTRACE_DIR, UFTRACE_BUFFER, UFTRACE_ARGUMENT, ...)
 *
 * script lines (parsed completely before the first hook call):
 *   E <k> <t> <rdi> <rsi>   -pg style entry of f<k> at fake time t with two argument registers
 *   X <t> <rax>             exit of the innermost call at fake time t with a return value
 *   S                       raise(SIGSTOP): hand control to the tracer (recorder catch-up / kill window)
 *   SIG                     raise(SIGUSR1)   (UFTRACE_SIGNAL=SIGUSR1@finish: the finish flag is set; the next hook
 *                           call runs mtd_dtor; hook calls are dead afterwards)
 *   CLOSE                   close the message pipe as mcount_trace_finish() of another thread does (mcount_pfd = -1)
 *   TEND                    mtd_dtor(&mtd): what the TSD destructor does at a normal thread end
 *   EXEC <script2>          execv() of this program with another script: a second traced image in the same task
 *   SEGV                    raise(SIGSEGV)   (libmcount's segv_handler flushes the open calls)
 *   ABRT                    abort()
 *   EXIT                    _exit(0)
 *   END                     return from main (exit(): libmcount's destructor)
 */
#define _GNU_SOURCE
#include <stdio.h>
#include <stdlib.h>
#include <string.h>
#include <stdint.h>
#include <time.h>
#include <errno.h>
#include <signal.h>
#include <unistd.h>

#include "uftrace.h"
#include "libmcount/mcount.h"
#include "libmcount/internal.h"
#include "mcount-arch.h"

static volatile uint64_t fake_now = 1000;
static volatile int fake_on;

int clock_gettime(clockid_t id, struct timespec *ts)
{
	extern int __clock_gettime(clockid_t, struct timespec *);
	if (!fake_on)
		return __clock_gettime(id, ts);
	ts->tv_sec = fake_now / 1000000000ULL;
	ts->tv_nsec = fake_now % 1000000000ULL;
	return 0;
}

/* /proc/self/statm as the read trigger (f15@read=proc/statm -> save_proc_statm) sees it: the k-th read gives
   "100+7k 50+3k 20+k", so that the payload of the EVENT records is known to the driver */
#include <dlfcn.h>
static int statm_reads;
static FILE *fake_fopen(const char *path, const char *mode, const char *sym)
{
	static char text[64];
	static FILE *(*real)(const char *, const char *);
	if (!real)
		real = dlsym(RTLD_NEXT, sym);
	if (path && !strcmp(path, "/proc/self/statm") && fake_on) {
		int k = statm_reads++;
		snprintf(text, sizeof(text), "%d %d %d 0 0 0 0\n", 100 + 7 * k, 50 + 3 * k, 20 + k);
		return fmemopen(text, strlen(text), "r");
	}
	return real(path, mode);
}
FILE *fopen(const char *path, const char *mode) { return fake_fopen(path, mode, "fopen"); }
FILE *fopen64(const char *path, const char *mode) { return fake_fopen(path, mode, "fopen64"); }

/* 32 functions at 256-byte spacing, real ELF symbols f0..f31 (as in mc_harness.c) */
#define FDEF(n, fill)                                                                              \
	asm(".text\n .globl f" #n "\n .type f" #n ",@function\n .p2align 8\n f" #n ":\n .fill " #fill \
	    ",1,0x90\n ret\n .size f" #n ", .-f" #n "\n");                                            \
	extern void f##n(void);
FDEF(0, 16) FDEF(1, 24) FDEF(2, 32) FDEF(3, 40) FDEF(4, 48) FDEF(5, 56) FDEF(6, 64) FDEF(7, 72)
FDEF(8, 16) FDEF(9, 24) FDEF(10, 32) FDEF(11, 40) FDEF(12, 48) FDEF(13, 56) FDEF(14, 64) FDEF(15, 72)
static void (*const funcs[])(void) = { f0, f1, f2,  f3,	 f4,  f5,  f6,	f7,
				       f8, f9, f10, f11, f12, f13, f14, f15 };
#define NFUNC 16

extern int mcount_entry(unsigned long *parent_loc, unsigned long child, struct mcount_regs *regs);
extern unsigned long mcount_exit(long *retval);

enum { OP_E, OP_X, OP_S, OP_SEGV, OP_ABRT, OP_EXIT, OP_END, OP_SIG, OP_CLOSE, OP_TEND, OP_EXEC };
static char exec_script[512];
extern TLS struct mcount_thread_data mtd;
struct sop {
	int kind, k;
	unsigned long long t;
	unsigned long a1, a2;
};
#define MAXOPS 4096
static struct sop ops[MAXOPS];
static int nops;
static unsigned long frames[MAXOPS][4];

int main(int argc, char **argv)
{
	FILE *fp;
	char line[256];
	int i, sp = 0, finished = 0;

	if (argc < 2)
		return 2;
	fp = fopen(argv[1], "r");
	if (!fp)
		return 2;
	while (fgets(line, sizeof(line), fp) && nops < MAXOPS) {
		struct sop *o = &ops[nops];
		char op[16] = "";
		o->a1 = o->a2 = 0;
		if (sscanf(line, "%15s", op) != 1)
			continue;
		if (!strcmp(op, "E")) {
			o->kind = OP_E;
			sscanf(line, "%*s %d %llu %lu %lu", &o->k, &o->t, &o->a1, &o->a2);
		}
		else if (!strcmp(op, "X")) {
			o->kind = OP_X;
			sscanf(line, "%*s %llu %lu", &o->t, &o->a1);
		}
		else if (!strcmp(op, "S"))
			o->kind = OP_S;
		else if (!strcmp(op, "SEGV"))
			o->kind = OP_SEGV;
		else if (!strcmp(op, "ABRT"))
			o->kind = OP_ABRT;
		else if (!strcmp(op, "EXIT"))
			o->kind = OP_EXIT;
		else if (!strcmp(op, "END"))
			o->kind = OP_END;
		else if (!strcmp(op, "SIG"))
			o->kind = OP_SIG;
		else if (!strcmp(op, "CLOSE"))
			o->kind = OP_CLOSE;
		else if (!strcmp(op, "TEND"))
			o->kind = OP_TEND;
		else if (!strcmp(op, "EXEC")) {
			o->kind = OP_EXEC;
			sscanf(line, "%*s %511s", exec_script);
		}
		else
			continue;
		nops++;
	}
	fclose(fp);
	/* print the base address: the recorder prints it on, Python maps addresses to f<k>+off */
	fprintf(stderr, "BASE %lu\n", (unsigned long)f0);
	fflush(stderr);
	fake_on = 1;

	for (i = 0; i < nops; i++) {
		struct sop *o = &ops[i];
		switch (o->kind) {
		case OP_E: {
			struct mcount_regs regs;
			memset(&regs, 0, sizeof(regs));
			regs.rdi = o->a1;
			regs.rsi = o->a2;
			fake_now = o->t;
			frames[sp][0] = 0xdead0000UL + sp;
			if (mcount_entry(&frames[sp][0], (unsigned long)funcs[o->k % NFUNC] + 4, &regs) != 0) {
				if (!finished)
					_exit(90); /* the script never asks for a rejected call */
				finished = 2;
				break;		   /* after finish / thread end the hooks are dead */
			}
			if (o->k % NFUNC == 14)
				finished = 2;	   /* f14@finish: mtd_dtor ran when the hook was left */
			sp++;
			break;
		}
		case OP_X: {
			long rv[4] = { (long)o->a1, 0, 0, 0 };
			if (finished == 2 || sp <= 0)
				break;		   /* the return stack is gone */
			fake_now = o->t;
			mcount_exit(rv);
			sp--;
			if (finished)
				finished = 2;
			break;
		}
		case OP_S:
			raise(SIGSTOP);
			break;
		case OP_SIG:
			raise(SIGUSR1);
			finished = 1; /* the next hook call runs mtd_dtor (an exit hook still records first) */
			break;
		case OP_CLOSE:
			close(mcount_pfd);
			mcount_pfd = -1;
			break;
		case OP_TEND:
			mtd_dtor(&mtd);
			finished = 2;
			break;
		case OP_EXEC: {
			char *a[] = { argv[0], exec_script, NULL };
			execv(argv[0], a);
			_exit(92);
		}
		case OP_SEGV:
			raise(SIGSEGV);
			_exit(91);
		case OP_ABRT:
			abort();
		case OP_EXIT:
			_exit(0);
		case OP_END:
			return 0;
		}
	}
	return 0;
}
