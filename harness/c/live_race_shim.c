#define _GNU_SOURCE
#include <dlfcn.h>
#include <string.h>
#include <stdio.h>
#include <sys/stat.h>
#include <fcntl.h>
#include <unistd.h>
/* another process takes the name between unlink() and mkdir(): plant a foreign directory */
int unlink(const char *path)
{
	static int (*real)(const char *);
	int r;
	if (!real) real = dlsym(RTLD_NEXT, "unlink");
	r = real(path);
	if (r == 0 && !strncmp(path, "/tmp/uftrace-live-", 18) && !strchr(path + 18, '/')) {
		char f[256];
		int fd;
		mkdir(path, 0755);
		snprintf(f, sizeof f, "%s/precious.txt", path);
		fd = open(f, O_CREAT | O_WRONLY, 0644);
		if (fd >= 0) { (void)!write(fd, "foreign\n", 8); close(fd); }
		fprintf(stderr, "SHIM planted %s\n", f);
	}
	return r;
}
