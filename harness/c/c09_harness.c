/* C09 harness: runs the real parse_argspec() of utils/argspec.c (object code of the scratch build of
 * /repo's current tree) on one argument spec per input line and prints the fields of the resulting
 * struct uftrace_arg_spec:   "S <idx> <fmt> <size> <type> <reg_idx/stack_ofs> <struct_reg_cnt> <r0> <r1> <r2> <r3> <type_name|->"
 * or "S -" when the spec is rejected.
 * A line "X\t<-A string>\t<-R string>\t<-T string>" (empty = option not given) runs the real extract_trigger_args()
 * of utils/auto-args.c, as cmds/info.c fill_arg_spec does when it writes the argspec / retspec lines of the info
 * file, and prints "X\t<argspec>\t<retspec>". */
#include <stdio.h>
#include <stdlib.h>
#include <string.h>
#include "uftrace.h"
#include "utils/utils.h"
#include "utils/filter.h"
#include "utils/argspec.h"

extern FILE *logfp, *outfp;

int main(void)
{
	static char line[4096];
	struct uftrace_filter_setting setting = {
		.ptype = PATT_SIMPLE,
		.arch = UFT_CPU_X86_64,
		.lp64 = true,
	};

	logfp = stderr;
	outfp = stdout;
	while (fgets(line, sizeof line, stdin)) {
		struct uftrace_arg_spec *s;
		size_t n = strlen(line);
		int i;
		if (n && line[n - 1] == '\n')
			line[n - 1] = 0;
		if (line[0] == 'X' && line[1] == '\t') {
			char *a = line + 2, *r, *t;
			char *pa, *pr;
			r = strchr(a, '\t');
			t = r ? strchr(r + 1, '\t') : NULL;
			if (!r || !t) {
				printf("X -\n");
				continue;
			}
			*r++ = 0;
			*t++ = 0;
			pa = *a ? a : NULL;
			pr = *r ? r : NULL;
			extract_trigger_args(&pa, &pr, *t ? t : NULL);
			printf("X\t%s\t%s\n", pa ? pa : "", pr ? pr : "");
			continue;
		}
		s = parse_argspec(line, &setting);
		if (s == NULL) {
			printf("S -\n");
			continue;
		}
		printf("S %d %d %d %d %d %d", s->idx, (int)s->fmt, s->size, (int)s->type, (int)s->reg_idx,
		       (int)s->struct_reg_cnt);
		for (i = 0; i < 4; i++)
			printf(" %d", i < s->struct_reg_cnt ? (int)s->struct_regs[i] : 0);
		printf(" %s\n", s->type_name ? s->type_name : "-");
		free_arg_spec(s);
	}
	return 0;
}
