/*
 * mc_harness - drives the REAL libmcount (object files of the scratch build of /repo's
 * current tree, linked statically) with a scripted call history and a fake clock.
 *
 * One operation per line on stdin, one result line per operation on stdout:
 *
 *   T <n>              following operations are executed by worker thread n (0 = main thread)
 *   E <k> <t>          -pg style entry of function f<k> at fake time t      -> "E <ret> <errno_ok>"
 *   X <t>              exit of the innermost hooked -pg call at time t        -> "X <slot> <errno_ok>"
 *   CE <k> <t>         __cyg_profile_func_enter(f<k>) at time t              -> "CE"
 *   CX <k> <t>         __cyg_profile_func_exit(f<k>) at time t               -> "CX"
 *   EA <k> <t> <rdi> <rsi> <rdx> <rcx> <r8> <r9> [stack words...]
 *                      -pg entry with a synthetic register frame; a word "@S<i>" is the address
 *                      of string <i>, "@BAD" an unmapped address, "@BRK" an unmapped address 8 MiB behind the heap, "@EDGE" the inaccessible page behind a readable one, "@F<k>" the address of f<k>                -> like E
 *   XR <t> <rax> [<rdx>]   exit with return value                              -> like X
 *   STR <i> <hex>      define string i (NUL appended)
 *   STATE              filter state of the current thread -> "S in out depth max time size idx ridx enabled"
 *   DUMP               records this thread has written to its shm buffers so far -> "R ..." lines, "END"
 *   TEND               current worker thread exits (runs libmcount's thread destructor), then DUMP
 *   TPEXIT             current worker thread ends in pthread_exit() (libmcount's wrapper records the open calls), then DUMP
 *   FORK               fork(); the child continues with the script, the parent waits and exits
 *   TIME <t>           set the fake clock only
 *   VAL <name> <v>     set an interposed value source (pagefault, cpu, statm, var)
 *   ARGFILL <d> <byte> <n> / ARGDUMP <d> <n>   (C09) fill / hex-dump the per-frame argument buffer of
 *                      frame mtd.idx+d (n bytes, may span the following frames' buffers)
 *   ADDR               (C09) -> "ADDR <address of f0> <the @BAD address> <the @BRK address>"
 *   XRF <t> <rax> <rdx> <x>  (C09) like XR, xmm0 (low 64 bits) := x right before mcount_exit
 *   SPECS <k>          (C09) the merged argument spec list libmcount holds for f<k>
 *   FRAMESET <d> <i> <w>  (C09) word i of the fake stack frame of call depth d := w
 *   SADDR <i>          (C09) -> "SADDR <address of string/object i>"
 *   OBJ <i> <word>...  (C09) define object i as these 8-byte words (numbers, @S<j>, @BAD)
 *   DUMPRAW            (C09) the raw byte stream of this thread's shm buffers -> "DUMPRAW <hex>"
 *   SYNC               flush stdout (for a driver that talks to the harness interactively)     -> "SYNC"
 *   SHMFAIL <n>        the next n shm_open(O_CREAT) calls fail with ENOSPC (allocate_shmem_buffer)  -> "SHMFAIL"
 *   PSTATE             ring of the current thread -> "P nr_buf curr losts done [flag size]..."
 *   BASE               address of f0 -> "BASE <addr>";   TID -> "TID <tid of the current thread>"
 *   EXEC               prints "EXEC", flushes, then execs this program again (same pid/tid, same environment:
 *                      libmcount starts a new session in the new image); the driver must wait for the line
 *                      before it sends anything else
 *   VALX <name> <v>    (C17) unsigned 64-bit knobs: statm_on statm0 statm1 statm2 (pages, faked /proc/self/statm),
 *                      pmu_on cycle0 cycle1 cache0 cache1 branch0 branch1 (faked perf_event_open group reads),
 *                      var8 var16 var32 (watched globals verif_watched_u8 / _u16 / _u32)
 *   AUTOSTATE 2        like AUTOSTATE 1 plus an "XS nr_events watch_inited watch_cpu" line after every hook
 *   QUIT
 *
 * A call whose entry returned -1 (not hooked) must not be followed by X for that call:
 * the Python driver keeps track (as the real -pg stub does).
 */
#define _GNU_SOURCE
#include <stdio.h>
#include <stdlib.h>
#include <string.h>
#include <stdint.h>
#include <time.h>
#include <errno.h>
#include <unistd.h>
#include <fcntl.h>
#include <pthread.h>
#include <dirent.h>
#include <dlfcn.h>
#include <sys/mman.h>
#include <sys/stat.h>
#include <sys/wait.h>
#include <sys/resource.h>
#include <sys/syscall.h>

#include "uftrace.h"
#include "libmcount/mcount.h"
#include "libmcount/internal.h"
#include "mcount-arch.h"
#include "utils/filter.h"
#include "utils/argspec.h"

/* ------------------------------------------------------------------ interposed effects */
static volatile uint64_t fake_now = 1000;
static volatile int fake_on;
volatile long verif_pagefault_min, verif_pagefault_maj;
volatile int verif_cpu;
volatile long verif_watched_var;
/* C17: watched globals of 1, 2 and 4 bytes (-W var:verif_watched_u8 ...), set with VALX var8 / var16 / var32 */
volatile unsigned char verif_watched_u8;
volatile unsigned short verif_watched_u16;
volatile unsigned int verif_watched_u32;

int clock_gettime(clockid_t id, struct timespec *ts)
{
	extern int __clock_gettime(clockid_t, struct timespec *);
	if (!fake_on)
		return __clock_gettime(id, ts);
	ts->tv_sec = fake_now / 1000000000ULL;
	ts->tv_nsec = fake_now % 1000000000ULL;
	return 0;
}

int getrusage(int who, struct rusage *ru)
{
	memset(ru, 0, sizeof(*ru));
	ru->ru_minflt = verif_pagefault_min;
	ru->ru_majflt = verif_pagefault_maj;
	return 0;
}

int sched_getcpu(void)
{
	return verif_cpu;
}

/* allocation-failure injection: shm_open is what uftrace_shmem_open calls (utils/shmem.c) */
static volatile int verif_shmfail;
int shm_open(const char *name, int oflag, mode_t mode)
{
	static int (*real_shm_open)(const char *, int, mode_t);
	if (!real_shm_open)
		real_shm_open = dlsym(RTLD_NEXT, "shm_open");
	if (verif_shmfail > 0 && (oflag & O_CREAT)) {
		verif_shmfail--;
		errno = ENOSPC;
		return -1;
	}
	return real_shm_open(name, oflag, mode);
}

/* ---- C17: /proc/self/statm and perf_event_open group reads, faked only while the knobs are on */
#include <dlfcn.h>
#include <stdarg.h>
#include <linux/perf_event.h>
volatile int verif_statm_on, verif_pmu_on;
volatile uint64_t verif_statm[3];
volatile uint64_t verif_pmu[6]; /* cycles instrs cache-refs cache-misses branches branch-misses */
#define MAXFAKEFD 1024
static signed char fakefd_kind[MAXFAKEFD]; /* 0 = real fd, 1 + leader config otherwise (libmcount wraps close()
					    * itself: entries are overwritten when the number is handed out again) */

FILE *fopen(const char *path, const char *mode)
{
	static FILE *(*real)(const char *, const char *);
	if (verif_statm_on && path && !strcmp(path, "/proc/self/statm")) {
		static __thread char buf[128];
		snprintf(buf, sizeof(buf), "%llu %llu %llu 0 0 0 0\n", (unsigned long long)verif_statm[0],
			 (unsigned long long)verif_statm[1], (unsigned long long)verif_statm[2]);
		return fmemopen(buf, strlen(buf), "r");
	}
	if (!real)
		real = dlsym(RTLD_NEXT, "fopen");
	return real(path, mode);
}

long syscall(long nr, ...)
{
	static long (*real)(long, ...);
	long a[6];
	va_list ap;
	int i;
	va_start(ap, nr);
	for (i = 0; i < 6; i++)
		a[i] = va_arg(ap, long);
	va_end(ap);
	if (nr == SYS_perf_event_open && verif_pmu_on) {
		struct perf_event_attr *attr = (void *)a[0];
		int group_fd = (int)a[3];
		int fd = open("/dev/null", O_RDONLY);
		if (fd >= 0 && fd < MAXFAKEFD)
			fakefd_kind[fd] = group_fd < 0 ? 1 + (int)attr->config : 100;
		return fd;
	}
	if (!real)
		real = dlsym(RTLD_NEXT, "syscall");
	return real(nr, a[0], a[1], a[2], a[3], a[4], a[5]);
}

ssize_t read(int fd, void *buf, size_t n)
{
	static ssize_t (*real)(int, void *, size_t);
	if (fd >= 0 && fd < MAXFAKEFD && fakefd_kind[fd] > 0 && fakefd_kind[fd] < 100 && n >= 24) {
		uint64_t v[3];
		int k = fakefd_kind[fd] - 1; /* leader config: 0 cycles, 2 cache-references, 4 branches */
		v[0] = 2;
		v[1] = verif_pmu[k];
		v[2] = verif_pmu[k + 1];
		memcpy(buf, v, 24);
		return 24;
	}
	if (!real)
		real = dlsym(RTLD_NEXT, "read");
	return real(fd, buf, n);
}

/* ------------------------------------------------------------------ traced "functions" */
/* 64 functions at 256-byte spacing, size 17 + 8*(k%8) bytes, real ELF symbols f0..f63 */
#define FDEF(n, fill)                                                                              \
	asm(".text\n .globl f" #n "\n .type f" #n ",@function\n .p2align 8\n f" #n ":\n .fill " #fill \
	    ",1,0x90\n ret\n .size f" #n ", .-f" #n "\n");                                            \
	extern void f##n(void);
FDEF(0, 16) FDEF(1, 24) FDEF(2, 32) FDEF(3, 40) FDEF(4, 48) FDEF(5, 56) FDEF(6, 64) FDEF(7, 72)
FDEF(8, 16) FDEF(9, 24) FDEF(10, 32) FDEF(11, 40) FDEF(12, 48) FDEF(13, 56) FDEF(14, 64) FDEF(15, 72)
FDEF(16, 16) FDEF(17, 24) FDEF(18, 32) FDEF(19, 40) FDEF(20, 48) FDEF(21, 56) FDEF(22, 64) FDEF(23, 72)
FDEF(24, 16) FDEF(25, 24) FDEF(26, 32) FDEF(27, 40) FDEF(28, 48) FDEF(29, 56) FDEF(30, 64) FDEF(31, 72)
static void (*const funcs[])(void) = { f0,  f1,  f2,  f3,  f4,  f5,  f6,  f7,  f8,  f9,  f10,
				       f11, f12, f13, f14, f15, f16, f17, f18, f19, f20, f21,
				       f22, f23, f24, f25, f26, f27, f28, f29, f30, f31 };
#define NFUNC 32

extern int mcount_entry(unsigned long *parent_loc, unsigned long child, struct mcount_regs *regs);
extern unsigned long mcount_exit(long *retval);
extern void __cyg_profile_func_enter(void *child, void *parent);
extern void __cyg_profile_func_exit(void *child, void *parent);
extern TLS struct mcount_thread_data mtd;
extern bool mcount_enabled;
extern int shmem_bufsize;

/* ------------------------------------------------------------------ per-thread driver state */
#define MAXDEPTH 70000
#define FRAME_WORDS 24
struct drv {
	unsigned long (*frames)[FRAME_WORDS]; /* fake stack frames, one per open -pg call:
					       * [0] return-address slot, [1..] stack arguments */
	int sp;
	int csp; /* depth of the driver's call stack (hooked or not) */
	unsigned char *hooked;
	int tid;
	pthread_t th;
	int alive;
	/* baton */
	pthread_mutex_t mu;
	pthread_cond_t cv;
	char *line; /* pending op */
	int done;
};
static struct drv drv[16];
static char *strings[4096];
static void *bad_page;
static char session[64];

static int gettid_(void)
{
	return syscall(SYS_gettid);
}

static unsigned long edge_addr; /* C09: end of a readable page = start of an inaccessible one */
static unsigned long brk_gap; /* C09: end of the heap at start-up + 8 MiB (the heap of the driver stays far below) */

/* C09: lowest mapped address of the [stack] mapping minus 64 KiB (inside the guard gap: not mapped) */
static unsigned long stack_low_unmapped(void)
{
	FILE *fp = fopen("/proc/self/maps", "r");
	char buf[512];
	unsigned long lo = 0;
	while (fp && fgets(buf, sizeof buf, fp))
		if (strstr(buf, "[stack]"))
			lo = strtoul(buf, NULL, 16);
	if (fp)
		fclose(fp);
	return lo ? lo - 65536 : 0;
}

static unsigned long parse_word(const char *w)
{
	if (w[0] == '@') {
		if (!strcmp(w, "@BAD"))
			return (unsigned long)bad_page + 16;
		if (!strncmp(w, "@EDGE", 5)) /* C09: first byte of a PROT_NONE page right behind a readable page of 4095 'E's
					      * and a NUL; "@EDGE-<k>": k bytes in front of it */
			return edge_addr - (w[5] == '-' ? strtoul(w + 6, NULL, 0) : 0);
		if (!strcmp(w, "@BRK")) /* C09: an unmapped address shortly behind the end of the heap */
			return brk_gap;
		if (!strcmp(w, "@STK")) /* C09: an unmapped address shortly below the mapped stack */
			return stack_low_unmapped();
		if (w[1] == 'S') { /* "@S<i>" or (C09) "@S<i>+<offset>" */
			const char *plus = strchr(w, '+');
			return (unsigned long)strings[atoi(w + 2)] + (plus ? strtoul(plus + 1, NULL, 0) : 0);
		}
		if (w[1] == 'F') /* C09: start address of f<k> */
			return (unsigned long)funcs[atoi(w + 2) % NFUNC];
	}
	return strtoul(w, NULL, 0);
}

static void print_addr(unsigned long a)
{
	unsigned long base = (unsigned long)f0;
	if (a >= base && a < base + NFUNC * 256)
		printf("f%lu+%lu", (a - base) / 256, (a - base) % 256);
	else
		printf("0x%lx", a);
}

static void dump_records(int tid)
{
	/* read the shm objects of this thread in index order */
	int idx;
	for (idx = 0;; idx++) {
		char name[128];
		int fd;
		struct stat st;
		struct mcount_shmem_buffer *b;
		unsigned off;

		snprintf(name, sizeof(name), "/dev/shm/uftrace-%s-%d-%03d", session, tid, idx);
		fd = open(name, O_RDONLY);
		if (fd < 0)
			break;
		fstat(fd, &st);
		b = mmap(NULL, st.st_size, PROT_READ, MAP_SHARED, fd, 0);
		close(fd);
		if (b == MAP_FAILED)
			break;
		printf("BUF %d size=%u flag=%u\n", idx, b->size, b->flag);
		for (off = 0; off + 16 <= b->size;) {
			uint64_t t, w;
			unsigned type, more, magic, depth;
			unsigned long addr;
			memcpy(&t, b->data + off, 8);
			memcpy(&w, b->data + off + 8, 8);
			type = w & 3;
			more = (w >> 2) & 1;
			magic = (w >> 3) & 7;
			depth = (w >> 6) & 0x3ff;
			addr = w >> 16;
			printf("R %llu %u %u %u %u ", (unsigned long long)t, type, more, magic, depth);
			if (type == UFTRACE_EVENT || type == UFTRACE_LOST)
				printf("%lu", addr);
			else
				print_addr(addr);
			off += 16;
			if (more) {
				/* payload: for ENTRY/EXIT the length is not stored; print the rest up to
				 * the next record with a valid magic at 8-byte alignment (driver re-parses
				 * with the spec); for EVENT a 2-byte length precedes the data */
				if (type == UFTRACE_EVENT) {
					uint16_t len;
					unsigned i, tot;
					memcpy(&len, b->data + off, 2);
					printf(" P");
					for (i = 0; i < len; i++)
						printf("%02x", (unsigned char)b->data[off + 2 + i]);
					tot = (len + 2 + 7) & ~7u;
					off += tot;
				}
				else {
					printf(" RAW");
					/* leave to the driver: print everything to the end of buffer */
					for (; off < b->size; off++)
						printf("%02x", (unsigned char)b->data[off]);
				}
			}
			printf("\n");
		}
		munmap(b, st.st_size);
	}
	printf("END\n");
}

static void find_session(void)
{
	/* the session id is the basename of the sid-*.map file libmcount wrote into UFTRACE_DIR */
	const char *dir = getenv("UFTRACE_DIR");
	DIR *d = opendir(dir ? dir : ".");
	struct dirent *e;
	while (d && (e = readdir(d))) {
		if (!strncmp(e->d_name, "sid-", 4)) {
			snprintf(session, sizeof(session), "%.16s", e->d_name + 4);
			break;
		}
	}
	if (d)
		closedir(d);
}

static int autostate;
static void print_state(void)
{
#ifndef DISABLE_MCOUNT_FILTER
	printf("S %d %d %u %u %llu %u %d %d %d\n", mtd.filter.in_count, mtd.filter.out_count,
	       mtd.filter.depth, mtd.filter.max_depth, (unsigned long long)mtd.filter.time,
	       mtd.filter.size, mtd.idx, mtd.record_idx, (int)mcount_enabled);
#else
	printf("S 0 0 0 0 0 0 %d %d 1\n", mtd.idx, mtd.record_idx);
#endif
	if (autostate == 2)
		printf("XS %d %d %d\n", mtd.nr_events, (int)mtd.watch.inited, mtd.watch.cpu);
}

static void do_op(struct drv *dv, char *line)
{
	char op[16] = "";
	sscanf(line, "%15s", op);
	if (!strcmp(op, "E") || !strcmp(op, "EA")) {
		int k;
		unsigned long long t;
		struct mcount_regs regs;
		unsigned long *frame = dv->frames[dv->sp];
		int r, n = 0;
		char *save, *tok;
		memset(&regs, 0, sizeof(regs));
		memset(frame, 0, sizeof(dv->frames[0]));
		tok = strtok_r(line, " \n", &save);
		tok = strtok_r(NULL, " \n", &save);
		k = atoi(tok);
		tok = strtok_r(NULL, " \n", &save);
		t = strtoull(tok, NULL, 0);
		while ((tok = strtok_r(NULL, " \n", &save)) != NULL) {
			unsigned long v = parse_word(tok);
			switch (n) {
			case 0: regs.rdi = v; break;
			case 1: regs.rsi = v; break;
			case 2: regs.rdx = v; break;
			case 3: regs.rcx = v; break;
			case 4: regs.r8 = v; break;
			case 5: regs.r9 = v; break;
			default:
				if (n - 6 + 1 < FRAME_WORDS)
					frame[n - 6 + 1] = v;
			}
			n++;
		}
		fake_now = t;
		frame[0] = 0xdead0000UL + dv->sp;
		errno = 77;
		r = mcount_entry(&frame[0], (unsigned long)funcs[k] + 4, &regs);
		printf("E %d %d\n", r, errno == 77);
		dv->hooked[dv->csp++] = (r == 0);
		if (r == 0)
			dv->sp++;
		if (autostate)
			print_state();
	}
	else if (!strcmp(op, "X") || !strcmp(op, "XR") || !strcmp(op, "XRF")) {
		unsigned long long t;
		long rv[4] = { 0, 0, 0, 0 };
		unsigned long ra;
		unsigned long xmm0v = 0; /* C09: XRF <t> <rax> <rdx> <xmm0 low 64 bits> */
		int have_xmm0 = 0;
		char *save, *tok;
		tok = strtok_r(line, " \n", &save);
		tok = strtok_r(NULL, " \n", &save);
		t = strtoull(tok, NULL, 0);
		if ((tok = strtok_r(NULL, " \n", &save)))
			rv[0] = parse_word(tok);
		if ((tok = strtok_r(NULL, " \n", &save)))
			rv[1] = parse_word(tok);
		if (op[2] == 'F' && (tok = strtok_r(NULL, " \n", &save))) {
			xmm0v = parse_word(tok);
			have_xmm0 = 1;
		}
		fake_now = t;
		if (dv->csp <= 0 || !dv->hooked[--dv->csp]) {
			/* the entry was not hooked: the real stub never calls mcount_exit for it */
			printf("X - 1\n");
			if (autostate)
				print_state();
			return;
		}
		if (dv->sp > 0 && (dv->frames[dv->sp - 1][0] & ~0xffffUL) == 0xdead0000UL) {
			/* libmcount put the original return address back into the slot (thread finished:
			 * mtd_dtor -> mcount_rstack_restore): the function returns to its caller, no exit hook */
			dv->sp--;
			printf("X - 1\n");
			if (autostate)
				print_state();
			return;
		}
		errno = 55;
		if (have_xmm0)
			asm volatile("movq %0, %%xmm0" ::"r"(xmm0v) : "xmm0");
		ra = mcount_exit(rv);
		dv->sp--;
		if ((ra & ~0xffffUL) == 0xdead0000UL)
			printf("X %lu %d\n", ra - 0xdead0000UL, errno == 55);
		else
			printf("X 0x%lx %d\n", ra, errno == 55);
		if (autostate)
			print_state();
	}
	else if (!strcmp(op, "CE") || !strcmp(op, "CX")) {
		int k;
		unsigned long long t;
		sscanf(line, "%*s %d %llu", &k, &t);
		fake_now = t;
		errno = 66;
		if (op[1] == 'E')
			__cyg_profile_func_enter((void *)((unsigned long)funcs[k] + 4), (void *)0x1234);
		else
			__cyg_profile_func_exit((void *)((unsigned long)funcs[k] + 4), (void *)0x1234);
		printf("%s %d\n", op, errno == 66);
		if (autostate)
			print_state();
	}
	else if (!strcmp(op, "STATE")) {
		print_state();
	}
	else if (!strcmp(op, "AUTOSTATE")) {
		sscanf(line, "%*s %d", &autostate);
		printf("AUTOSTATE\n");
	}
	else if (!strcmp(op, "DUMP")) {
		if (!session[0])
			find_session();
		dump_records(dv->tid);
	}
	else if (!strcmp(op, "PSTATE")) {
		struct mcount_shmem *sh = &mtd.shmem;
		int i;
		printf("P %d %d %d %d", sh->nr_buf, sh->nr_buf ? sh->curr : -1, sh->losts, (int)sh->done);
		for (i = 0; sh->buffer && i < sh->nr_buf; i++)
			printf(" %u %u", sh->buffer[i]->flag, sh->buffer[i]->size);
		printf("\n");
	}
	else if (!strcmp(op, "TID")) {
		printf("TID %d\n", dv->tid);
	}
	else if (!strcmp(op, "TIME")) {
		unsigned long long t;
		sscanf(line, "%*s %llu", &t);
		fake_now = t;
		printf("TIME\n");
	}
	else if (!strcmp(op, "VAL")) {
		char nm[32];
		long v;
		sscanf(line, "%*s %31s %ld", nm, &v);
		if (!strcmp(nm, "pagefault"))
			verif_pagefault_min = v;
		else if (!strcmp(nm, "majfault"))
			verif_pagefault_maj = v;
		else if (!strcmp(nm, "cpu"))
			verif_cpu = v;
		else if (!strcmp(nm, "var"))
			verif_watched_var = v;
		printf("VAL\n");
	}
#ifndef DISABLE_MCOUNT_FILTER
	else if (!strcmp(op, "ARGFILL") || !strcmp(op, "ARGDUMP")) {
		/* C09: ARGFILL <delta> <byte> <n>  fill n bytes of the per-frame argument buffers starting at
		 *      frame (mtd.idx + delta) with <byte>;  ARGDUMP <delta> <n>  hex dump of the same range
		 *      -> "ARGDUMP <flags of that frame> <hex>" */
		int delta = 0, a = 0, b = 0;
		long fr;
		sscanf(line, "%*s %d %d %d", &delta, &a, &b);
		fr = (long)mtd.idx + delta;
		if (!mtd.argbuf || fr < 0) {
			printf("%s -\n", op);
		}
		else if (op[3] == 'F') {
			memset((char *)mtd.argbuf + fr * ARGBUF_SIZE, a, b);
			printf("ARGFILL\n");
		}
		else {
			unsigned char *p = (unsigned char *)mtd.argbuf + fr * ARGBUF_SIZE;
			int i;
			printf("ARGDUMP %lu ", (unsigned long)mtd.rstack[fr].flags);
			for (i = 0; i < a; i++)
				printf("%02x", p[i]);
			printf("\n");
		}
	}
#endif
#ifndef DISABLE_MCOUNT_FILTER
	else if (!strcmp(op, "SPECS")) {
		/* C09: the argument spec list libmcount holds for f<k> after all -A/-R options were merged
		 * -> "SPECS <trigger flags> <n> | idx fmt size type reg_idx/stack_ofs struct_reg_cnt r0 r1 r2 r3 name | ..." */
		extern struct uftrace_triggers_info *mcount_triggers;
		struct uftrace_trigger tr = { 0 };
		struct uftrace_arg_spec *sp;
		int k = 0, n = 0, i;
		sscanf(line, "%*s %d", &k);
		uftrace_match_filter((unsigned long)funcs[k % NFUNC] + 4, &mcount_triggers->root, &tr);
		if (tr.pargs)
			list_for_each_entry(sp, tr.pargs, list)
				n++;
		printf("SPECS %u %d", (unsigned)tr.flags, n);
		if (tr.pargs)
			list_for_each_entry(sp, tr.pargs, list) {
				printf(" | %d %d %d %d %d %d", sp->idx, (int)sp->fmt, sp->size, (int)sp->type,
				       (int)sp->reg_idx, (int)sp->struct_reg_cnt);
				for (i = 0; i < 4; i++)
					printf(" %d", i < sp->struct_reg_cnt ? (int)sp->struct_regs[i] : 0);
				printf(" %s", sp->type_name ? sp->type_name : "-");
			}
		printf("\n");
	}
#endif
	else if (!strcmp(op, "FRAMESET")) {
		/* C09: FRAMESET <depth> <index> <word>: word <index> of the fake stack frame used at call depth <depth> */
		int d = 0, i = 0;
		char w[64] = "0";
		sscanf(line, "%*s %d %d %63s", &d, &i, w);
		if (d >= 0 && d < MAXDEPTH && i >= 0 && i < FRAME_WORDS)
			dv->frames[d][i] = parse_word(w);
		printf("FRAMESET\n");
	}
	else if (!strcmp(op, "ADDR")) {
		/* C09: addresses the driver needs to build a synthetic data directory / the model's inputs */
		printf("ADDR %lu %lu %lu %lu\n", (unsigned long)f0, (unsigned long)bad_page + 16, brk_gap, edge_addr);
	}
	else if (!strcmp(op, "DUMPRAW")) {
		/* C09: the exact byte stream this thread has written (all its shm buffers, in order) */
		int idx;
		if (!session[0])
			find_session();
		printf("DUMPRAW ");
		for (idx = 0;; idx++) {
			char name[128];
			int fd;
			unsigned i;
			struct stat st;
			struct mcount_shmem_buffer *b;
			snprintf(name, sizeof(name), "/dev/shm/uftrace-%s-%d-%03d", session, dv->tid, idx);
			fd = open(name, O_RDONLY);
			if (fd < 0)
				break;
			fstat(fd, &st);
			b = mmap(NULL, st.st_size, PROT_READ, MAP_SHARED, fd, 0);
			close(fd);
			if (b == MAP_FAILED)
				break;
			for (i = 0; i < b->size; i++)
				printf("%02x", (unsigned char)b->data[i]);
			munmap(b, st.st_size);
		}
		printf("\n");
	}
	else if (!strcmp(op, "VALX")) {
		char nm[32];
		unsigned long long v = 0;
		static const char *const pn[] = { "cycle0", "cycle1", "cache0", "cache1", "branch0", "branch1" };
		int i;
		sscanf(line, "%*s %31s %llu", nm, &v);
		if (!strcmp(nm, "statm_on"))
			verif_statm_on = v;
		else if (!strcmp(nm, "pmu_on"))
			verif_pmu_on = v;
		else if (!strcmp(nm, "var8"))
			verif_watched_u8 = v;
		else if (!strcmp(nm, "var16"))
			verif_watched_u16 = v;
		else if (!strcmp(nm, "var32"))
			verif_watched_u32 = v;
		else if (!strncmp(nm, "statm", 5) && nm[5] >= '0' && nm[5] <= '2')
			verif_statm[nm[5] - '0'] = v;
		else
			for (i = 0; i < 6; i++)
				if (!strcmp(nm, pn[i]))
					verif_pmu[i] = v;
		printf("VALX\n");
	}
	else
		printf("? %s\n", op);
}

static void *worker(void *arg)
{
	struct drv *dv = arg;
	dv->tid = gettid_();
	pthread_mutex_lock(&dv->mu);
	dv->done = 1;
	pthread_cond_broadcast(&dv->cv);
	for (;;) {
		while (!dv->line)
			pthread_cond_wait(&dv->cv, &dv->mu);
		if (!strncmp(dv->line, "TEND", 4) || !strncmp(dv->line, "TPEXIT", 6)) {
			int pexit = dv->line[1] == 'P';
			dv->line = NULL;
			dv->done = 1;
			pthread_cond_broadcast(&dv->cv);
			pthread_mutex_unlock(&dv->mu);
			if (pexit)
				pthread_exit(NULL); /* libmcount's wrapper: the open calls are recorded and dropped */
			return NULL; /* thread exit runs mtd_dtor through the TSD destructor */
		}
		do_op(dv, dv->line);
		dv->line = NULL;
		dv->done = 1;
		pthread_cond_broadcast(&dv->cv);
	}
}

static void ensure_thread(int n)
{
	struct drv *dv = &drv[n];
	if (dv->alive)
		return;
	dv->frames = calloc(MAXDEPTH, sizeof(dv->frames[0]));
	dv->hooked = calloc(MAXDEPTH, 1);
	dv->csp = 0;
	dv->sp = 0;
	dv->alive = 1;
	if (n == 0) {
		dv->tid = gettid_();
		return;
	}
	pthread_mutex_init(&dv->mu, NULL);
	pthread_cond_init(&dv->cv, NULL);
	dv->done = 0;
	pthread_create(&dv->th, NULL, worker, dv);
	pthread_mutex_lock(&dv->mu);
	while (!dv->done)
		pthread_cond_wait(&dv->cv, &dv->mu);
	pthread_mutex_unlock(&dv->mu);
}

static void dispatch(int n, char *line)
{
	struct drv *dv = &drv[n];
	if (n == 0) {
		do_op(dv, line);
		return;
	}
	pthread_mutex_lock(&dv->mu);
	dv->done = 0;
	dv->line = line;
	pthread_cond_broadcast(&dv->cv);
	while (!dv->done)
		pthread_cond_wait(&dv->cv, &dv->mu);
	pthread_mutex_unlock(&dv->mu);
}

int main(void)
{
	static char line[1 << 16];
	int cur = 0;

	setvbuf(stdout, NULL, _IOFBF, 1 << 16);
	bad_page = mmap(NULL, 4096, PROT_NONE, MAP_PRIVATE | MAP_ANONYMOUS, -1, 0);
	brk_gap = (unsigned long)sbrk(0) + (8UL << 20) + 24;
	{
		char *two = mmap(NULL, 8192, PROT_READ | PROT_WRITE, MAP_PRIVATE | MAP_ANONYMOUS, -1, 0);
		memset(two, 'E', 4095);
		two[4095] = 0;
		mprotect(two + 4096, 4096, PROT_NONE);
		edge_addr = (unsigned long)two + 4096;
	}
	fake_on = 1;
	ensure_thread(0);
	while (fgets(line, sizeof line, stdin)) {
		if (line[0] == '#' || line[0] == '\n')
			continue;
		if (!strncmp(line, "QUIT", 4))
			break;
		if (line[0] == 'T' && line[1] == ' ') {
			cur = atoi(line + 2);
			ensure_thread(cur);
			printf("T %d\n", cur);
			continue;
		}
		if (!strncmp(line, "SYNC", 4)) {
			printf("SYNC\n");
			fflush(stdout);
			continue;
		}
		if (!strncmp(line, "SHMFAIL", 7)) {
			verif_shmfail = atoi(line + 7);
			printf("SHMFAIL\n");
			continue;
		}
		if (!strncmp(line, "BASE", 4)) {
			printf("BASE %lu\n", (unsigned long)f0);
			continue;
		}
		if (!strncmp(line, "STR ", 4)) {
			int i, n = 0;
			char hex[1 << 15];
			size_t j, len;
			hex[0] = 0;
			sscanf(line, "STR %d %32767s", &i, hex);
			len = strlen(hex) / 2;
			strings[i] = malloc(len + 1);
			for (j = 0; j < len; j++) {
				unsigned v;
				sscanf(hex + 2 * j, "%2x", &v);
				strings[i][j] = v;
			}
			strings[i][len] = 0;
			(void)n;
			printf("STR\n");
			continue;
		}
		if (!strncmp(line, "SADDR ", 6)) {
			/* C09: address of string/object i */
			printf("SADDR %lu\n", (unsigned long)strings[atoi(line + 6)]);
			continue;
		}
		if (!strncmp(line, "OBJ ", 4)) {
			/* C09: OBJ <i> <word> ...  object i = these 8-byte words (words as in EA: numbers, @S<j>, @BAD) */
			char *save, *tok;
			unsigned long *obj = calloc(16, sizeof(*obj));
			int i, n = 0;
			tok = strtok_r(line, " \n", &save);
			tok = strtok_r(NULL, " \n", &save);
			i = atoi(tok);
			while ((tok = strtok_r(NULL, " \n", &save)) != NULL && n < 16)
				obj[n++] = parse_word(tok);
			strings[i] = (char *)obj;
			printf("OBJ\n");
			continue;
		}
		if (!strncmp(line, "TEND", 4) || !strncmp(line, "TPEXIT", 6)) {
			int tid = drv[cur].tid;
			if (cur != 0) {
				dispatch(cur, line);
				pthread_join(drv[cur].th, NULL);
				drv[cur].alive = 0;
			}
			if (!session[0])
				find_session();
			printf("TEND\n");
			dump_records(tid);
			cur = 0;
			continue;
		}
		if (!strncmp(line, "EXEC", 4)) {
			char *const av[] = { (char *)"mc_harness", NULL };
			printf("EXEC\n");
			fflush(stdout);
			execv("/proc/self/exe", av);
			_exit(97);
		}
		if (!strncmp(line, "FORK", 4)) {
			pid_t pid;
			fflush(stdout);
			pid = fork();
			if (pid > 0) {
				int st;
				waitpid(pid, &st, 0);
				_exit(0);
			}
			/* child: single-threaded copy of the calling (main) thread */
			drv[0].tid = gettid_();
			printf("FORK child\n");
			if (autostate)
				print_state();
			continue;
		}
		dispatch(cur, line);
	}
	fflush(stdout);
	_exit(0); /* skip libmcount's destructor: the driver already dumped what it needs */
}
