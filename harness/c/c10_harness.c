/* C10 harness: drives the REAL symbol / session code of /repo's current tree.
 *
 * utils/symbol.c and utils/session.c are #included (so that the static functions
 * addrfind, addrsort, load_module_symbol_file, save_module_symbol_file and find_session
 * are reachable); everything else comes from the archive of the scratch build.
 *
 * usage: c10_harness <script>     one operation per line, one or more result lines per op
 *   ADDRFIND a sa sz              -> R <int>
 *   ADDRSORT a b                  -> R <int>
 *   KBASE <text>                  -> R <u64>              guess_kernel_base(text)
 *   TAB n / n x "addr size type namehex"                  current in-memory table
 *   FIND a                        -> R <idx|-1>           find_sym(current table, a)
 *   SAVESYM file pathhex bidhex   -> R 0                  save_module_symbol_file(current table)
 *   LOADSYM file                  -> T n / n x "addr size type namehex"   load_module_symbol_file
 *   READMAP dir sid exehex        -> M n kbase execidx / n x "start end prothex namehex bidhex"
 *   OPEN dir symdir               -> R <ret>              read_task_txt_file(needs_symtab)
 *   SESS pid time                 -> R <sidhex|->         find_session
 *   TSESS tid time                -> R <sidhex|->         find_task_session
 *   RESOLVE tid time addr         -> R <namehex|-> <symaddr> <symsize> <sidhex|-> <maphex|->
 *   DLSYM sidhex time addr        -> R <namehex|-> <symaddr> <symsize>
 *   ELFDYN file adj offset        -> T n / ...            load_elf_dynsymtab(file, offset, adj ? SYMTAB_FL_ADJ_OFFSET : 0)
 *   ELFMOD file                   -> T n / ...            load_module_symtab (ELF symtab + dynsym merged, ADJ_OFFSET,
 *                                                         as record does before it writes the .sym file); becomes the current table
 *   CLOSE                         -> R 0
 * numbers are decimal (u64); strings are hex-encoded ("-" = empty / NULL).
 */
#include "utils/symbol.c"
#undef PR_FMT
#undef PR_DOMAIN
#include "utils/session.c"

#include <string.h>

static void unhex(const char *h, char *out, size_t max)
{
	size_t n = 0;
	if (!strcmp(h, "-")) {
		out[0] = 0;
		return;
	}
	while (h[0] && h[1] && n + 1 < max) {
		unsigned v;
		sscanf(h, "%2x", &v);
		out[n++] = (char)v;
		h += 2;
	}
	out[n] = 0;
}

static void puthex(const char *s)
{
	if (s == NULL || !*s) {
		printf("-");
		return;
	}
	for (; *s; s++)
		printf("%02x", (unsigned char)*s);
}

static void puthexn(const char *s, size_t n)
{
	size_t i;
	if (n == 0) {
		printf("-");
		return;
	}
	for (i = 0; i < n && s[i]; i++)
		printf("%02x", (unsigned char)s[i]);
	if (i == 0)
		printf("-");
}

static struct uftrace_symtab cur;
static int cur_borrowed;
static struct uftrace_session_link link_;
static int opened;

static void free_cur(void)
{
	size_t i;
	if (cur_borrowed) {
		cur_borrowed = 0;
		memset(&cur, 0, sizeof(cur));
		unload_module_symtabs();
		return;
	}
	for (i = 0; i < cur.nr_sym; i++)
		free(cur.sym[i].name);
	free(cur.sym);
	free(cur.sym_names);
	memset(&cur, 0, sizeof(cur));
}

static void print_tab(struct uftrace_symtab *t)
{
	size_t i;
	printf("T %zu\n", t->nr_sym);
	for (i = 0; i < t->nr_sym; i++) {
		printf("%" PRIu64 " %u %d ", t->sym[i].addr, t->sym[i].size, (int)(unsigned char)t->sym[i].type);
		puthex(t->sym[i].name);
		printf("\n");
	}
}

static void print_sym(struct uftrace_symbol *sym)
{
	if (sym == NULL) {
		printf("- 0 0");
		return;
	}
	puthex(sym->name);
	printf(" %" PRIu64 " %u", sym->addr, sym->size);
}

int main(int argc, char **argv)
{
	FILE *fp;
	char *line = NULL;
	size_t cap = 0;
	static char s1[8192], s2[8192], s3[8192], b1[8192], b2[8192];

	if (argc < 2)
		return 2;
	logfp = stderr;
	outfp = stdout;
	fp = fopen(argv[1], "r");
	if (!fp)
		return 2;

	while (getline(&line, &cap, fp) > 0) {
		unsigned long long a, b, c;
		int n;

		if (sscanf(line, "ADDRFIND %llu %llu %llu", &a, &b, &c) == 3) {
			uint64_t addr = a;
			struct uftrace_symbol sym = { .addr = b, .size = (unsigned)c };
			printf("R %d\n", addrfind(&addr, &sym));
		}
		else if (sscanf(line, "ADDRSORT %llu %llu", &a, &b) == 2) {
			struct uftrace_symbol x = { .addr = a }, y = { .addr = b };
			printf("R %d\n", addrsort(&x, &y));
		}
		else if (!strncmp(line, "KBASE ", 6)) {
			line[strcspn(line, "\n")] = 0;
			printf("R %" PRIu64 "\n", guess_kernel_base(line + 6));
		}
		else if (sscanf(line, "TAB %d", &n) == 1) {
			int i;
			free_cur();
			cur.sym = xcalloc(n ? n : 1, sizeof(*cur.sym));
			cur.nr_sym = cur.nr_alloc = n;
			for (i = 0; i < n; i++) {
				unsigned long long ad, sz;
				int ty;
				if (getline(&line, &cap, fp) <= 0 ||
				    sscanf(line, "%llu %llu %d %8000s", &ad, &sz, &ty, s1) != 4)
					return 3;
				unhex(s1, b1, sizeof(b1));
				cur.sym[i].addr = ad;
				cur.sym[i].size = (unsigned)sz;
				cur.sym[i].type = ty;
				cur.sym[i].name = xstrdup(b1);
			}
			printf("R %d\n", n);
		}
		else if (sscanf(line, "FIND %llu", &a) == 1) {
			struct uftrace_symbol *sym = find_sym(&cur, a);
			printf("R %ld\n", sym ? (long)(sym - cur.sym) : -1L);
		}
		else if (sscanf(line, "SAVESYM %8000s %8000s %8000s", s1, s2, s3) == 3) {
			unhex(s2, b1, sizeof(b1));
			unhex(s3, b2, sizeof(b2));
			save_module_symbol_file(&cur, b1, b2, s1, 0);
			printf("R 0\n");
		}
		else if (sscanf(line, "LOADSYM %8000s", s1) == 1) {
			struct uftrace_symtab t = {};
			size_t i;
			load_module_symbol_file(&t, s1, 0);
			print_tab(&t);
			for (i = 0; i < t.nr_sym; i++)
				free(t.sym[i].name);
			free(t.sym);
			free(t.sym_names);
		}
		else if (sscanf(line, "READMAP %8000s %8000s %8000s", s1, s2, s3) == 3) {
			struct uftrace_sym_info si = {};
			struct uftrace_mmap *m;
			int cnt = 0, ex = -1, k = 0;
			unhex(s3, b1, sizeof(b1));
			si.filename = b1[0] ? b1 : NULL;
			read_session_map(s1, &si, s2);
			for (m = si.maps; m; m = m->next, k++) {
				if (m == si.exec_map)
					ex = k;
				cnt++;
			}
			printf("M %d %" PRIu64 " %d\n", cnt, si.kernel_base, ex);
			for (m = si.maps; m; m = m->next) {
				printf("%" PRIu64 " %" PRIu64 " ", m->start, m->end);
				puthexn(m->prot, 4);
				printf(" ");
				puthex(m->libname);
				printf(" ");
				puthexn(m->build_id, sizeof(m->build_id));
				printf("\n");
			}
			delete_session_map(&si);
		}
		else if (sscanf(line, "OPEN %8000s %8000s", s1, s2) == 2) {
			static char d1[8192], d2[8192];
			int ret;
			strcpy(d1, s1);
			strcpy(d2, s2);
			memset(&link_, 0, sizeof(link_));
			ret = read_task_txt_file(&link_, d1, d2, true, false, false);
			opened = 1;
			printf("R %d\n", ret);
		}
		else if (sscanf(line, "SESS %llu %llu", &a, &b) == 2) {
			struct uftrace_session *s = find_session(&link_, (int)a, b);
			printf("R ");
			if (s)
				puthexn(s->sid, SESSION_ID_LEN);
			else
				printf("-");
			printf("\n");
		}
		else if (sscanf(line, "TSESS %llu %llu", &a, &b) == 2) {
			struct uftrace_task *t = find_task(&link_, (int)a);
			struct uftrace_session *s = t ? find_task_session(&link_, t, b) : NULL;
			printf("R ");
			if (s)
				puthexn(s->sid, SESSION_ID_LEN);
			else
				printf("-");
			printf("\n");
		}
		else if (sscanf(line, "RESOLVE %llu %llu %llu", &a, &b, &c) == 3) {
			struct uftrace_task *t = find_task(&link_, (int)a);
			struct uftrace_task_reader tr = { .tid = (int)a, .t = t };
			struct uftrace_symbol *sym = NULL;
			struct uftrace_session *s = NULL;
			struct uftrace_mmap *m = NULL;
			if (t) {
				sym = task_find_sym_addr(&link_, &tr, b, c);
				s = find_task_session(&link_, t, b);
				if (s)
					m = find_map(&s->sym_info, c);
			}
			printf("R ");
			print_sym(sym);
			printf(" ");
			if (s)
				puthexn(s->sid, SESSION_ID_LEN);
			else
				printf("-");
			printf(" ");
			if (m == MAP_KERNEL)
				printf("4b");
			else if (m)
				puthex(m->libname);
			else
				printf("-");
			printf("\n");
		}
		else if (sscanf(line, "DLSYM %8000s %llu %llu", s1, &a, &b) == 3) {
			char sid[SESSION_ID_LEN + 1] = {};
			struct uftrace_session *s;
			unhex(s1, b1, sizeof(b1));
			strncpy(sid, b1, SESSION_ID_LEN);
			s = get_session_from_sid(&link_, sid);
			printf("R ");
			print_sym(s ? session_find_dlsym(s, a, b) : NULL);
			printf("\n");
		}
		else if (sscanf(line, "ELFDYN %8000s %llu %llu", s1, &a, &b) == 3) {
			struct uftrace_symtab t = {};
			struct uftrace_elf_data elf;
			size_t i;
			if (elf_init(s1, &elf) < 0) {
				printf("T 0\n");
			}
			else {
				load_elf_dynsymtab(&t, &elf, (unsigned long)b, a ? SYMTAB_FL_ADJ_OFFSET : 0);
				elf_finish(&elf);
				print_tab(&t);
				for (i = 0; i < t.nr_sym; i++)
					free(t.sym[i].name);
				free(t.sym);
				free(t.sym_names);
			}
		}
		else if (sscanf(line, "ELFMOD %8000s", s1) == 1) {
			static struct uftrace_sym_info si;
			struct uftrace_module *m;
			char bid[BUILD_ID_STR_SIZE];
			free_cur();
			memset(&si, 0, sizeof(si));
			si.flags = SYMTAB_FL_ADJ_OFFSET;
			read_build_id(s1, bid, sizeof(bid));
			m = load_module_symtab(&si, s1, bid);
			cur = m->symtab;
			cur_borrowed = 1;
			print_tab(&cur);
		}
		else if (!strncmp(line, "CLOSE", 5)) {
			if (opened) {
				delete_sessions(&link_);
				unload_module_symtabs();
				opened = 0;
			}
			printf("R 0\n");
		}
		else if (line[0] != '\n' && line[0] != '#') {
			fprintf(stderr, "c10_harness: bad op: %s", line);
			return 4;
		}
	}
	fflush(stdout);
	return 0;
}
