/* C08 harness: runs the REAL accumulation code of `uftrace report` (cmds/report.c is #included so
 * that the static build_function_tree/add_remaining_fstack/add_lost_fstack are reachable; everything
 * else - utils/fstack.c, utils/report.c, the data readers - comes from the object files of the scratch
 * build of /repo's current tree) on a data directory and dumps, without any rounding:
 *
 *   U <tid> <name> <total_ns> <self_ns> <rec>        one line per report_update_node() that counted
 *                                                     (rec = the call went to total.rec, i.e. "recursive")
 *   N <name> <call> <t.sum> <t.rec> <t.avg> <t.min> <t.max> <s.sum> <s.rec> <s.avg> <s.min> <s.max> <t.stdv %a> <s.stdv %a>
 *                                                     the node table in name-tree order after report_calc_avg
 *   S <keys> <name> <name> ...                        row order produced by report_sort_nodes for <keys>
 *
 * usage: c08_harness DIR [sortkeys ...]
 */
#include <inttypes.h>
#include <stdio.h>
#include <stdlib.h>

#include "uftrace.h"
#include "utils/fstack.h"
#include "utils/report.h"
#include "utils/utils.h"

static void c08_update_node(struct uftrace_report_node *node, struct uftrace_task_reader *task,
			    struct uftrace_dbg_loc *loc);

#define report_update_node c08_update_node
#include "cmds/report.c"
#undef report_update_node

static void c08_update_node(struct uftrace_report_node *node, struct uftrace_task_reader *task,
			    struct uftrace_dbg_loc *loc)
{
	uint64_t call = node->call;
	uint64_t tsum = node->total.sum, trec = node->total.rec;
	uint64_t ssum = node->self.sum, srec = node->self.rec;

	report_update_node(node, task, loc);

	if (node->call == call)
		return;
	printf("U %d %s %" PRIu64 " %" PRIu64 " %d\n", task->tid, node->name,
	       (node->total.sum - tsum) + (node->total.rec - trec),
	       (node->self.sum - ssum) + (node->self.rec - srec), node->total.rec != trec);
}

int main(int argc, char **argv)
{
	struct uftrace_opts opts = {
		.mode = UFTRACE_MODE_REPORT,
		.libcall = true,
		.max_stack = OPT_RSTACK_DEFAULT,
		.depth = OPT_DEPTH_DEFAULT,
		.kernel_skip_out = true,
		.event_skip_out = true,
		.sort_column = OPT_SORT_COLUMN,
		.patt_type = PATT_REGEX,
		.show_args = true,
		.comment = true,
		.color = COLOR_OFF,
		.trace = TRACE_STATE_ON,
	};
	struct uftrace_data handle;
	struct rb_root name_root = RB_ROOT;
	struct rb_root sort_root = RB_ROOT;
	struct rb_node *n;
	int i;

	if (argc < 2)
		return 2;
	logfp = stderr;
	outfp = stdout;
	opts.dirname = argv[1];
	opts.range.kernel_skip_out = opts.kernel_skip_out;
	opts.range.event_skip_out = opts.event_skip_out;

	if (open_data_file(&opts, &handle) < 0) {
		printf("E open\n");
		return 1;
	}
	fstack_setup_filters(&opts, &handle);

	build_function_tree(&handle, &name_root, &opts);
	report_calc_avg(&name_root);

	for (n = rb_first(&name_root); n; n = rb_next(n)) {
		struct uftrace_report_node *node = rb_entry(n, struct uftrace_report_node, name_link);

		printf("N %s %" PRIu64 " %" PRIu64 " %" PRIu64 " %" PRIu64 " %" PRIu64 " %" PRIu64
		       " %" PRIu64 " %" PRIu64 " %" PRIu64 " %" PRIu64 " %" PRIu64 " %a %a\n",
		       node->name, node->call, node->total.sum, node->total.rec, node->total.avg,
		       node->total.min, node->total.max, node->self.sum, node->self.rec,
		       node->self.avg, node->self.min, node->self.max, node->total.stdv, node->self.stdv);
	}

	for (i = 2; i < argc; i++) {
		char *keys = convert_sort_keys(argv[i], AVG_NONE);

		if (report_setup_sort(keys) < 0) {
			printf("E sortkey %s\n", argv[i]);
			return 1;
		}
		report_sort_nodes(&name_root, &sort_root);
		printf("S %s", argv[i]);
		for (n = rb_first(&sort_root); n; n = rb_next(n)) {
			struct uftrace_report_node *node =
				rb_entry(n, struct uftrace_report_node, sort_link);
			printf(" %s", node->name);
		}
		printf("\n");
		free(keys);
	}
	printf("E ok\n");
	fflush(stdout);
	return 0;
}
