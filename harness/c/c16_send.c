/* C16 harness, sender side.
 *
 * #includes cmds/record.c of /repo's CURRENT tree so that the static functions of the recorder
 * are reachable: write_buffer() (the switch "local file or socket"), write_buffer_file(),
 * send_task_file(), send_map_files(), send_sym_files(), send_dbg_files(), send_info_file().
 * send_trace_*() come from cmds/recv.c (included by c16_recv.c), read_all/write_all/writev_all
 * from the scratch build's utils/utils.o.
 *
 * One client = one forked process running c16_client(): for every `data` op the SAME buffer is
 * handed to write_buffer() twice, once with opts.host == NULL (-> LOCALDIR/<tid>.dat) and once
 * with opts.host set (-> socket).  write()/writev() on the socket are interposed (c16_recv.c):
 * short counts / EINTR from the case's schedule, every byte accepted is appended to CAPFILE.
 */
#include "cmds/record.c"

#include "c16_common.h"
#include <linux/sockios.h>

/* defined in uftrace.c (main program), referenced by command_record() only */
void parse_script_opt(struct uftrace_opts *opts)
{
}

static unsigned char *unhex(const char *h, size_t *len)
{
	size_t n, i;
	unsigned char *b;

	if (!strcmp(h, "-")) {
		*len = 0;
		return calloc(1, 1);
	}
	n = strlen(h) / 2;
	b = malloc(n + 1);
	for (i = 0; i < n; i++) {
		unsigned v;
		sscanf(h + 2 * i, "%2x", &v);
		b[i] = v;
	}
	b[n] = 0;
	*len = n;
	return b;
}

static void fill_random(unsigned char *p, size_t len, uint64_t seed)
{
	size_t i;
	uint64_t x = seed * 0x9E3779B97F4A7C15ULL + 0x1234567;

	for (i = 0; i < len; i++) {
		x ^= x << 13;
		x ^= x >> 7;
		x ^= x << 17;
		p[i] = (unsigned char)(x >> 24);
	}
}

static void append_local(const char *dir, const char *name, const void *data, size_t len)
{
	char path[PATH_MAX];
	int fd;
	const char *p = data;

	snprintf(path, sizeof(path), "%s/%s", dir, name);
	fd = open(path, O_WRONLY | O_CREAT | O_APPEND, 0644);
	if (fd < 0)
		_exit(41);
	while (len) {
		long r = syscall(SYS_write, fd, p, len);
		if (r <= 0)
			_exit(42);
		p += r;
		len -= r;
	}
	close(fd);
}

static void both_paths(struct uftrace_opts *opts, int sock, int tid, unsigned char *data, size_t len)
{
	struct mcount_shmem_buffer *shm = malloc(sizeof(*shm) + len + 1);
	struct buf_list buf = { .tid = tid, .shmem_buf = shm };

	INIT_LIST_HEAD(&buf.list);
	memset(shm, 0, sizeof(*shm));
	memcpy(shm->data, data, len);

	shm->size = len;
	opts->host = NULL;
	write_buffer(&buf, opts, sock); /* local recording */

	shm->size = len;
	opts->host = "c16";
	write_buffer(&buf, opts, sock); /* network recording of the same buffer */
	free(shm);
}

/* SEVERAL WRITER THREADS on the one socket (cmds/record.c writer_thread -> write_buffer -> send_trace_data):
 * a block of consecutive `tdata` ops is executed by as many threads as the ops name, each thread sending its
 * buffers in order, all at the same time; the interposed writev() yields after a short count so that another
 * thread gets its turn in the middle of a message - exactly what a full socket buffer does. */
struct tblock {
	struct c16_client *c;
	int sock, thread, from, to;
};

static void *tblock_run(void *arg)
{
	struct tblock *b = arg;
	struct uftrace_opts opts;
	int i;

	memset(&opts, 0, sizeof(opts));
	opts.dirname = b->c->localdir;
	for (i = b->from; i < b->to; i++) {
		struct c16_op *op = &b->c->ops[i];
		size_t len = 0;
		unsigned char *data;

		if (op->kind != OP_TDATA || op->thread != b->thread)
			continue;
		data = unhex(op->arg, &len);
		both_paths(&opts, b->sock, (int)op->num, data, len);
		free(data);
	}
	return NULL;
}

static int run_tblock(struct c16_client *c, int sock, int from)
{
	pthread_t th[16];
	struct tblock tb[16];
	int to = from, nth = 0, t;

	while (to < c->nops && c->ops[to].kind == OP_TDATA) {
		if (c->ops[to].thread + 1 > nth)
			nth = c->ops[to].thread + 1;
		to++;
	}
	if (nth > 16)
		nth = 16;
	for (t = 0; t < nth; t++) {
		tb[t] = (struct tblock){ .c = c, .sock = sock, .thread = t, .from = from, .to = to };
		pthread_create(&th[t], NULL, tblock_run, &tb[t]);
	}
	for (t = 0; t < nth; t++)
		pthread_join(th[t], NULL);
	return to;
}

/* runs the ops of one client; returns the exit status */
int c16_client(struct c16_client *c, int sock)
{
	struct uftrace_opts opts;
	int i;

	memset(&opts, 0, sizeof(opts));
	opts.dirname = c->localdir;

	for (i = 0; i < c->nops; i++) {
		struct c16_op *op = &c->ops[i];
		size_t len = 0;
		unsigned char *data = NULL;
		char num[64];

		if (op->kind == OP_TDATA) {
			i = run_tblock(c, sock, i) - 1;
			continue;
		}

		switch (op->kind) {
		case OP_DIR:
			data = unhex(op->arg, &len);
			send_trace_dir_name(sock, (char *)data);
			break;
		case OP_DATA:
			data = unhex(op->arg, &len);
			both_paths(&opts, sock, (int)op->num, data, len);
			break;
		case OP_BIGDATA:
			len = op->len;
			data = malloc(len + 1);
			fill_random(data, len, op->seed);
			both_paths(&opts, sock, (int)op->num, data, len);
			break;
		case OP_KERNEL:
			data = unhex(op->arg, &len);
			snprintf(num, sizeof(num), "kernel-cpu%d.dat", (int)op->num);
			append_local(c->localdir, num, data, len);
			send_trace_kernel_data(sock, (int)op->num, data, len);
			break;
		case OP_PERF:
			data = unhex(op->arg, &len);
			snprintf(num, sizeof(num), "perf-cpu%d.dat", (int)op->num);
			append_local(c->localdir, num, data, len);
			send_trace_perf_data(sock, (int)op->num, data, len);
			break;
		case OP_META:
			data = unhex(op->arg, &len);
			send_trace_metadata(sock, c->localdir, (char *)data);
			break;
		case OP_INFO:
			send_info_file(sock, c->localdir);
			break;
		case OP_TASKFILE:
			send_task_file(sock, c->localdir);
			break;
		case OP_MAPFILES:
			send_map_files(sock, c->localdir);
			break;
		case OP_SYMFILES:
			send_sym_files(sock, c->localdir);
			break;
		case OP_DBGFILES:
			send_dbg_files(sock, c->localdir);
			break;
		case OP_END:
			send_trace_end(sock);
			break;
		case OP_POST: /* once the server has READ all we sent (and so has handled it): tell the others */
		{
			int left = 1, spins = 0, fd;

			while (ioctl(sock, SIOCOUTQ, &left) == 0 && left > 0 && spins++ < 8000)
				usleep(1000);
			usleep(3000);
			fd = open(op->arg, O_WRONLY | O_CREAT, 0644);
			if (fd >= 0)
				close(fd);
			break;
		}
		case OP_WAIT: /* wait for another client's OP_POST */
		{
			int spins = 0;

			while (access(op->arg, F_OK) != 0 && spins++ < 8000)
				usleep(1000);
			break;
		}
		case OP_TDATA: /* handled above */
		case OP_ABORT: /* handled by the caller once everything is sent */
			break;
		case OP_SLEEP:
			usleep(op->num);
			break;
		case OP_RAW: /* raw bytes straight to the socket (malformed-stream cases) */
			data = unhex(op->arg, &len);
			if (write_all(sock, data, len) < 0)
				return 43;
			break;
		}
		free(data);
	}
	return 0;
}
