/*
 * c03_recorder - the recorder side of the trace hand-off, REAL code: cmds/record.c is #included so that
 * its static functions and lists are in scope (read_record_mmap, record_mmap_file, copy_to_buffer,
 * writer_thread, write_buf_list, stop_all_writers, flush_shmem_list, record_remaining_buffer,
 * shmem_list_head, buf_write_list, writer_list, shmem_lost_count).  The producer is another process
 * (harness/c/mc_harness.c = the real libmcount); both talk over the real FIFO <dir>/.channel and real
 * POSIX shm objects, as `uftrace record` and the traced program do.
 *
 *   c03_recorder <dir> <bufsize> <nr_writers> step|soak <seed>
 *
 * step mode (deterministic): the writer threads are real threads running the real writer_thread, but
 * they are held at two gates by interposing libc calls they make: poll() (idle, top of the loop) and
 * open("<tid>.dat") (registered for a tid, about to write the head of their list).  Commands on stdin:
 *   M        read_record_mmap on the next REC_START / REC_END / LOST message (other messages are
 *            processed on the way)                             -> "M start|end|lost|exec|none"   (exec = TASK_START of a known tid)
 *   W <i>    let writer i run from its gate to its next gate    -> "W <i> poll|open"
 *   STOP     stop_all_writers()                                 -> "STOP"
 *   JOIN     open all gates for good, pthread_join the writers  -> "JOIN"
 *   FLUSH    flush_shmem_list(); record_remaining_buffer()      -> "FLUSH"
 *   SNAP     -> "SNAP shl=<ids> bwl=<ids> lost=<n> kicks=<n> w=<tid|->:<ids>;..."   ids = sid.tid:idx,...
 *   QUIT
 * soak mode: RUN = the loop of do_main_loop/stop_tracing/finish_writers on the FIFO with free-running
 * writers; seeded random delays are injected at poll/open/munmap/pthread_mutex_lock.  -> "DONE lost=<n>"
 */
#define _GNU_SOURCE
#define main uftrace_main
#include "uftrace.c"
#undef main
#include "cmds/record.c"

#include <sys/syscall.h>
#include <sys/ioctl.h>
#include <dlfcn.h>
#include <stdarg.h>
#include <sched.h>

/* ------------------------------------------------------------------ gates / delays */
enum { MODE_STEP, MODE_SOAK };
static int v_mode;
static volatile int v_freerun; /* gates open for good */
static __thread int v_widx = -1;
static __thread unsigned v_rng;

enum { G_NONE, G_POLL, G_OPEN };
struct gate {
	pthread_mutex_t mu;
	pthread_cond_t cv;
	int at;	 /* gate the writer is waiting at (G_NONE = running) */
	int go;	 /* permission to pass */
	int dead;
};
#define MAXW 16
static struct gate gates[MAXW];

static int real_mutex_lock(pthread_mutex_t *m);

static void gate_wait(int which)
{
	struct gate *g;
	if (v_widx < 0 || v_mode != MODE_STEP || v_freerun)
		return;
	g = &gates[v_widx];
	real_mutex_lock(&g->mu);
	g->at = which;
	pthread_cond_broadcast(&g->cv);
	while (!g->go && !v_freerun)
		pthread_cond_wait(&g->cv, &g->mu);
	g->go = 0;
	g->at = G_NONE;
	pthread_mutex_unlock(&g->mu);
}

static void soak_delay(void)
{
	if (v_mode != MODE_SOAK)
		return;
	v_rng = v_rng * 1103515245u + 12345u;
	if (((v_rng >> 16) & 3) == 0)
		usleep((v_rng >> 18) % 400);
	else if (((v_rng >> 16) & 3) == 1)
		sched_yield();
}

int poll(struct pollfd *fds, nfds_t n, int timeout)
{
	if (v_widx >= 0) {
		gate_wait(G_POLL);
		soak_delay();
		if (v_mode == MODE_STEP && !v_freerun)
			timeout = 0;
		else if (v_mode == MODE_STEP)
			timeout = 20;
	}
	return syscall(SYS_poll, fds, n, timeout);
}

static int is_dat(const char *path)
{
	size_t l = strlen(path);
	return l > 4 && !strcmp(path + l - 4, ".dat");
}

int open(const char *path, int flags, ...)
{
	mode_t mode = 0;
	if (flags & (O_CREAT | O_TMPFILE)) {
		va_list ap;
		va_start(ap, flags);
		mode = va_arg(ap, mode_t);
		va_end(ap);
	}
	if (v_widx >= 0 && is_dat(path)) {
		gate_wait(G_OPEN);
		soak_delay();
	}
	return syscall(SYS_openat, AT_FDCWD, path, flags, mode);
}
int open64(const char *path, int flags, ...) __attribute__((alias("open")));

int munmap(void *addr, size_t len)
{
	if (v_widx >= 0)
		soak_delay();
	return syscall(SYS_munmap, addr, len);
}

static int real_mutex_lock(pthread_mutex_t *m)
{
	static int (*real)(pthread_mutex_t *);
	if (!real)
		real = dlsym(RTLD_NEXT, "pthread_mutex_lock");
	return real(m);
}
int pthread_mutex_lock(pthread_mutex_t *m)
{
	if (v_mode == MODE_SOAK && (m == &write_list_lock || m == &free_list_lock))
		soak_delay();
	return real_mutex_lock(m);
}

/* ------------------------------------------------------------------ writers */
struct wstart {
	int idx;
	unsigned seed;
	struct writer_arg *warg;
};
static struct writer_arg *wargs[MAXW];
static pthread_t wthreads[MAXW];
static int nr_writers;

static void *writer_wrapper(void *arg)
{
	struct wstart *ws = arg;
	void *r;
	v_widx = ws->idx;
	v_rng = ws->seed;
	r = writer_thread(ws->warg);
	real_mutex_lock(&gates[ws->idx].mu);
	gates[ws->idx].dead = 1;
	gates[ws->idx].at = G_NONE;
	pthread_cond_broadcast(&gates[ws->idx].cv);
	pthread_mutex_unlock(&gates[ws->idx].mu);
	return r;
}

static struct uftrace_opts v_opts;

static void start_writers(unsigned seed)
{
	int i;
	if (pipe(thread_ctl) < 0)
		pr_err("pipe");
	for (i = 0; i < nr_writers; i++) {
		/* as in start_tracing() */
		struct writer_arg *warg = xzalloc(sizeof(*warg) + sizeof(int));
		struct wstart *ws = xzalloc(sizeof(*ws));
		warg->opts = &v_opts;
		warg->idx = i;
		warg->sock = -1;
		warg->nr_cpu = 0;
		INIT_LIST_HEAD(&warg->list);
		INIT_LIST_HEAD(&warg->bufs);
		wargs[i] = warg;
		pthread_mutex_init(&gates[i].mu, NULL);
		pthread_cond_init(&gates[i].cv, NULL);
		ws->idx = i;
		ws->seed = seed * 2654435761u + i * 40503u + 1;
		ws->warg = warg;
		pthread_create(&wthreads[i], NULL, writer_wrapper, ws);
	}
}

static void wait_gate(int i)
{
	struct gate *g = &gates[i];
	real_mutex_lock(&g->mu);
	while (g->at == G_NONE && !g->dead)
		pthread_cond_wait(&g->cv, &g->mu);
	pthread_mutex_unlock(&g->mu);
}

static const char *gate_name(int i)
{
	if (gates[i].dead)
		return "dead";
	return gates[i].at == G_POLL ? "poll" : gates[i].at == G_OPEN ? "open" : "run";
}

static void step_writer(int i)
{
	struct gate *g = &gates[i];
	real_mutex_lock(&g->mu);
	g->go = 1;
	g->at = G_NONE;
	pthread_cond_broadcast(&g->cv);
	pthread_mutex_unlock(&g->mu);
	wait_gate(i);
}

/* ------------------------------------------------------------------ snapshot */
/* name of the shm object mapped at addr (buf_list keeps only the mapping) */
static void id_of_mapping(void *addr, char *out, size_t sz)
{
	FILE *fp = fopen("/proc/self/maps", "r");
	char line[512];
	snprintf(out, sz, "?");
	while (fp && fgets(line, sizeof(line), fp)) {
		unsigned long a, b;
		char *p;
		if (sscanf(line, "%lx-%lx", &a, &b) != 2 || a != (unsigned long)addr)
			continue;
		p = strstr(line, "/uftrace-");
		if (p) {
			unsigned long long sid;
			unsigned tid, seq;
			if (sscanf(p, "/uftrace-%16llx-%u-%u", &sid, &tid, &seq) == 3)
				snprintf(out, sz, "%016llx.%u:%u", sid, tid, seq);
		}
		break;
	}
	if (fp)
		fclose(fp);
}

static void print_buf_ids(struct list_head *head)
{
	struct buf_list *b;
	int first = 1;
	list_for_each_entry(b, head, list) {
		char id[64];
		id_of_mapping(b->shmem_buf, id, sizeof(id));
		printf("%s%s", first ? "" : ",", id);
		first = 0;
	}
}

static void snapshot(void)
{
	struct shmem_list *sl;
	struct writer_arg *w;
	int first = 1, i;

	printf("SNAP shl=");
	list_for_each_entry(sl, &shmem_list_head, list) {
		unsigned long long sid;
		unsigned tid, seq;
		sscanf(sl->id, "/uftrace-%16llx-%u-%u", &sid, &tid, &seq);
		printf("%s%016llx.%u:%u", first ? "" : ",", sid, tid, seq);
		first = 0;
	}
	real_mutex_lock(&write_list_lock);
	printf(" bwl=");
	print_buf_ids(&buf_write_list);
	{
		/* wake-ups waiting in the thread_ctl pipe (4 bytes each); 0 once stop_all_writers closed it */
		int pending = 0;
		if (thread_ctl[1] >= 0 && ioctl(thread_ctl[0], FIONREAD, &pending) < 0)
			pending = -4;
		printf(" lost=%d kicks=%d w=", shmem_lost_count, thread_ctl[1] >= 0 ? pending / 4 : 0);
	}
	for (i = 0; i < nr_writers; i++) {
		int reg = 0;
		list_for_each_entry(w, &writer_list, list)
			if (w == wargs[i])
				reg = 1;
		if (i)
			printf(";");
		if (reg && !gates[i].dead) {
			printf("%d:", wargs[i]->tid);
			print_buf_ids(&wargs[i]->bufs);
		}
		else
			printf("-:");
	}
	pthread_mutex_unlock(&write_list_lock);
	printf("\n");
}

/* ------------------------------------------------------------------ FIFO */
static int fifo_fd;
static int ipipe[2];

/* one message of the FIFO through the real read_record_mmap; returns its type or 0 if none */
static int one_message(const char *dir, int bufsize)
{
	struct uftrace_msg msg;
	char payload[4096];
	int known_task = 0;
	int n = read(fifo_fd, &msg, sizeof(msg));
	if (n <= 0)
		return 0;
	if (n != sizeof(msg) || msg.len > sizeof(payload))
		pr_err_ns("c03_recorder: short message header\n");
	if (msg.len && read_all(fifo_fd, payload, msg.len) < 0)
		pr_err_ns("c03_recorder: short message\n");
	if (msg.type == UFTRACE_MSG_TASK_START && msg.len == sizeof(struct uftrace_msg_task)) {
		/* TASK_START of a tid the recorder already has in its list = the task exec'ed: one step of its own */
		struct uftrace_msg_task *tm = (void *)payload;
		struct tid_list *tl;
		list_for_each_entry(tl, &tid_list_head, list)
			if (tl->tid == tm->tid)
				known_task = 1;
	}
	if (write(ipipe[1], &msg, sizeof(msg)) != sizeof(msg) ||
	    (msg.len && write(ipipe[1], payload, msg.len) != (ssize_t)msg.len))
		pr_err_ns("c03_recorder: internal pipe\n");
	read_record_mmap(ipipe[0], dir, bufsize);
	if (known_task)
		return 1000;
	return msg.type;
}

int main(int argc, char **argv)
{
	char line[256];
	char *channel = NULL;
	const char *dir;
	int bufsize, i;
	unsigned seed;

	if (argc < 6)
		return 2;
	dir = argv[1];
	bufsize = atoi(argv[2]);
	nr_writers = atoi(argv[3]);
	v_mode = !strcmp(argv[4], "soak") ? MODE_SOAK : MODE_STEP;
	seed = strtoul(argv[5], NULL, 0);
	v_rng = seed + 77;
	setvbuf(stdout, NULL, _IOLBF, 0);

	memset(&v_opts, 0, sizeof(v_opts));
	v_opts.dirname = (char *)dir;
	v_opts.bufsize = bufsize;
	v_opts.nr_thread = nr_writers;

	xasprintf(&channel, "%s/.channel", dir);
	fifo_fd = open(channel, O_RDONLY | O_NONBLOCK);
	if (fifo_fd < 0)
		pr_err("open channel");
	if (pipe(ipipe) < 0)
		pr_err("pipe");

	start_writers(seed);
	if (v_mode == MODE_STEP)
		for (i = 0; i < nr_writers; i++)
			wait_gate(i);
	printf("READY\n");

	while (fgets(line, sizeof(line), stdin)) {
		if (!strncmp(line, "M", 1) && (line[1] == '\n' || line[1] == 0)) {
			int ty;
			const char *what = "none";
			while ((ty = one_message(dir, bufsize)) != 0) {
				if (ty == UFTRACE_MSG_REC_START)
					what = "start";
				else if (ty == UFTRACE_MSG_REC_END)
					what = "end";
				else if (ty == UFTRACE_MSG_LOST)
					what = "lost";
				else if (ty == 1000)
					what = "exec";
				else
					continue;
				break;
			}
			printf("M %s\n", what);
		}
		else if (!strncmp(line, "W ", 2)) {
			i = atoi(line + 2);
			if (i >= 0 && i < nr_writers && !gates[i].dead)
				step_writer(i);
			printf("W %d %s\n", i, gate_name(i));
		}
		else if (!strncmp(line, "STOP", 4)) {
			stop_all_writers();
			printf("STOP\n");
		}
		else if (!strncmp(line, "JOIN", 4)) {
			v_freerun = 1;
			for (i = 0; i < nr_writers; i++) {
				real_mutex_lock(&gates[i].mu);
				pthread_cond_broadcast(&gates[i].cv);
				pthread_mutex_unlock(&gates[i].mu);
			}
			for (i = 0; i < nr_writers; i++)
				pthread_join(wthreads[i], NULL);
			close(thread_ctl[0]);
			printf("JOIN\n");
		}
		else if (!strncmp(line, "FLUSH", 5)) {
			flush_shmem_list(dir, bufsize);
			record_remaining_buffer(&v_opts, -1);
			printf("FLUSH\n");
		}
		else if (!strncmp(line, "SNAP", 4)) {
			snapshot();
		}
		else if (!strncmp(line, "RUN", 3)) {
			/* do_main_loop */
			for (;;) {
				struct pollfd pfd = { .fd = fifo_fd, .events = POLLIN };
				int ret = syscall(SYS_poll, &pfd, 1, 1000);
				if (ret < 0 && errno == EINTR)
					continue;
				if (ret < 0)
					pr_err("poll");
				if (pfd.revents & POLLIN) {
					read_record_mmap(fifo_fd, dir, bufsize);
					soak_delay();
				}
				if (pfd.revents & (POLLERR | POLLHUP))
					break;
			}
			/* stop_tracing: read what remains in the pipe */
			for (;;) {
				int remaining = 0;
				if (ioctl(fifo_fd, FIONREAD, &remaining) < 0 || !remaining)
					break;
				read_record_mmap(fifo_fd, dir, bufsize);
			}
			stop_all_writers();
			/* finish_writers */
			for (i = 0; i < nr_writers; i++)
				pthread_join(wthreads[i], NULL);
			close(thread_ctl[0]);
			flush_shmem_list(dir, bufsize);
			record_remaining_buffer(&v_opts, -1);
			printf("DONE lost=%d\n", shmem_lost_count);
		}
		else if (!strncmp(line, "UNLINK", 6)) {
			unlink_shmem_list();
			printf("UNLINK\n");
		}
		else if (!strncmp(line, "QUIT", 4))
			break;
		else
			printf("? %s", line);
	}
	fflush(stdout);
	_exit(0);
}
