/* C19 harness, libmcount stand-in: python/trace-python.c looks in /proc/self/maps for a mapping
 * whose basename starts with "libmcount" and takes __cyg_profile_func_enter/exit from its ELF
 * symbol table.  This object (built as libmcount-c19fake.so and LD_PRELOADed into python3) logs
 * every hook call the real uftrace_python.so makes:  "E <child> <parent>" / "X <child> <parent>". */
#include <stdio.h>
#include <stdlib.h>

static FILE *fp;

static void init(void)
{
	if (!fp) {
		const char *p = getenv("C19_HOOKLOG");
		fp = p ? fopen(p, "w") : NULL;
		if (!fp)
			fp = stderr;
	}
}

void __cyg_profile_func_enter(void *child, void *parent)
{
	init();
	fprintf(fp, "E %lu %lu\n", (unsigned long)child, (unsigned long)parent);
	fflush(fp);
}

void __cyg_profile_func_exit(void *child, void *parent)
{
	init();
	fprintf(fp, "X %lu %lu\n", (unsigned long)child, (unsigned long)parent);
	fflush(fp);
}
