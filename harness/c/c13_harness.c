/* C13 harness: feeds symbol names to the real demangle() of utils/demangle.c (object file of the
 * ASan+UBSan scratch build of /repo's current tree).
 *
 * stdin : one case per line, the name as lower-case hex (an empty line is the empty name)
 * stdout: one line per case, flushed:   R <hex of the returned string>   |   N   (NULL returned)
 *         T (and exit 3) when one call uses more than CAP_MS milliseconds of CPU time.
 * Every name is copied into a malloc block of exactly strlen+1 bytes so that the sanitizer sees
 * any read or write outside the symbol string; the block is compared afterwards ("W" is printed
 * before the result when demangle() wrote into its input).  A sanitizer report / signal / exit()
 * inside demangle() kills the process: the driver sees fewer result lines than cases. */
#include <stdio.h>
#include <stdlib.h>
#include <string.h>
#include <signal.h>
#include <unistd.h>
#include <sys/time.h>

char *demangle(char *str);
extern FILE *logfp, *outfp;

#define CAP_MS 1000

static void on_alarm(int sig)
{
	static const char msg[] = "T\n";
	(void)sig;
	if (write(1, msg, 2) < 0) {}
	_exit(3);
}

static void set_cap(int ms)
{
	struct itimerval it = { { 0, 0 }, { ms / 1000, (ms % 1000) * 1000 } };
	setitimer(ITIMER_VIRTUAL, &it, NULL);
}

static int hexval(int c)
{
	if (c >= '0' && c <= '9') return c - '0';
	if (c >= 'a' && c <= 'f') return c - 'a' + 10;
	return -1;
}

int main(void)
{
	char *line = NULL;
	size_t cap = 0;
	ssize_t n;

	logfp = stderr;
	outfp = stdout;
	signal(SIGVTALRM, on_alarm);

	while ((n = getline(&line, &cap, stdin)) >= 0) {
		size_t i, len;
		char *in, *copy, *res;

		while (n > 0 && (line[n - 1] == '\n' || line[n - 1] == '\r'))
			n--;
		len = n / 2;
		in = malloc(len + 1);
		copy = malloc(len + 1);
		for (i = 0; i < len; i++)
			in[i] = (char)(hexval(line[2 * i]) * 16 + hexval(line[2 * i + 1]));
		in[len] = '\0';
		memcpy(copy, in, len + 1);

		set_cap(CAP_MS);
		res = demangle(in);
		set_cap(0);

		if (memcmp(copy, in, len + 1))
			fputs("W ", stdout);
		if (res == NULL)
			fputs("N\n", stdout);
		else {
			const unsigned char *p = (const unsigned char *)res;
			fputs("R ", stdout);
			for (; *p; p++)
				printf("%02x", *p);
			fputc('\n', stdout);
		}
		fflush(stdout);
		if (res != in)
			free(res);
		free(in);
		free(copy);
	}
	free(line);
	return 0;
}
