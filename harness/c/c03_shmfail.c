/*
 * c03_shmfail - LD_PRELOAD library for the end-to-end runs of the C03 check: makes the shm_open(O_CREAT)
 * calls number C03_SHMFAIL_FROM .. C03_SHMFAIL_TO-1 of the process fail with ENOSPC (libmcount's
 * allocate_shmem_buffer is the only caller with O_CREAT; the first 2 calls of every thread are
 * prepare_shmem_buffer's, whose failure is fatal, so FROM is chosen beyond them).
 */
#define _GNU_SOURCE
#include <dlfcn.h>
#include <errno.h>
#include <fcntl.h>
#include <stdlib.h>
#include <sys/types.h>

int shm_open(const char *name, int oflag, mode_t mode)
{
	static int (*real)(const char *, int, mode_t);
	static int count;
	static long from = -1, to = -1;

	if (!real)
		real = dlsym(RTLD_NEXT, "shm_open");
	if (from < 0) {
		const char *f = getenv("C03_SHMFAIL_FROM"), *t = getenv("C03_SHMFAIL_TO");
		from = f ? atol(f) : 1L << 40;
		to = t ? atol(t) : 0;
	}
	if (oflag & O_CREAT) {
		int k = __sync_fetch_and_add(&count, 1);
		if (k >= from && k < to) {
			errno = ENOSPC;
			return -1;
		}
	}
	return real(name, oflag, mode);
}
