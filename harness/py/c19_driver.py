"""C19 harness driver: runs inside python3 with the REAL uftrace_python.so of the scratch build
(PYTHONPATH=<objdir>/python) and the libmcount stand-in preloaded.  It feeds a scripted stream of
profile events to uftrace_python.trace(frame, event, arg) - the function sys.setprofile would call -
using synthetic frame objects for Python functions and real builtin function objects for C
functions.  usage: c19_driver.py CASE.json OUT.json
Environment (set by props/c19.py): UFTRACE_SHMEM, UFTRACE_DIR, UFTRACE_PYMAIN, UFTRACE_FILTER,
UFTRACE_PY_LIBCALL, C19_HOOKLOG, LD_PRELOAD."""
import json
import math
import os
import sys
import time

import uftrace_python as U


class Code(object):
    pass


class Frame(object):
    pass


def mkframe(f):
    c = Code()
    c.co_qualname = f["qual"]
    c.co_name = f["qual"].split(".")[-1]
    c.co_filename = f["file"]
    c.co_firstlineno = 1
    fr = Frame()
    fr.f_code = c
    g = {}
    if f.get("mod") is not None:
        g["__name__"] = f["mod"]
    elif f.get("modkind") == "int":
        g["__name__"] = 5
    fr.f_globals = g
    return fr


def main():
    case = json.load(open(sys.argv[1]))
    env = {"os": os, "math": math, "time": time, "sys": sys, "json": json}
    objs = []
    resolved = []
    for f in case["funcs"]:
        if f["t"] == "py":
            objs.append(mkframe(f))
            resolved.append(f)
        else:
            o = eval(f["expr"], env)
            objs.append(o)
            m = getattr(o, "__module__", None)
            resolved.append({"t": "c", "expr": f["expr"], "mod": m if isinstance(m, str) else None,
                             "qual": o.__qualname__})
    first = mkframe({"qual": "<module>", "mod": "__main__", "file": "/uftrace.py"})
    caller = mkframe({"qual": "caller", "mod": "__main__", "file": "/x.py"})
    # what python -m uftrace does first: exec() is called from the frame that becomes `first_frame`
    U.trace(first, "c_call", exec)
    fresh = case.get("fresh_objects")
    for kind, idx in case["events"]:
        o = objs[idx]
        if fresh and case["funcs"][idx]["t"] == "py":
            # code objects die and are born all the time (exec/compile, modules imported and dropped): a new
            # frame and code object per event, released right after it, so that different functions get the
            # same addresses one after the other.  The identity of a function is its name, not its address.
            o = mkframe(case["funcs"][idx])
        if case["funcs"][idx]["t"] == "py":
            if kind in ("call", "return"):
                U.trace(o, kind, None)
            else:
                U.trace(caller, kind, o)       # not a builtin: ignored by get_c_funcname
        else:
            U.trace(caller, kind, o)
        o = None
    # events of the first frame stay invisible, whatever they are
    U.trace(first, "c_return", exec)
    U.trace(first, "c_call", sys.setprofile)
    json.dump({"funcs": resolved}, open(sys.argv[2], "w"))


main()
